"""Process bootstrap: make the repository's *current working tree* and hypothesis importable.

Imported first by run.py and by every worker process.  Nothing here depends on AutoCarver.
"""
import os
import subprocess
import sys

VERIF_ROOT = os.path.dirname(os.path.dirname(os.path.dirname(os.path.abspath(__file__))))
PBT_ROOT = os.path.join(VERIF_ROOT, "pbt")
DEPS = os.path.join(VERIF_ROOT, ".deps")
WHEELS = "/opt/veriftools/wheels"


class HarnessError(Exception):
    """Anything that is the harness' fault (exit code 2, never a VIOLATION)."""


def repo_root() -> str:
    return os.path.abspath(os.environ.get("VERIF_REPO", "/repo"))


def ensure_deps(install: bool = True) -> None:
    """hypothesis must be importable; install it offline into /verif/.deps if it is not."""
    if DEPS not in sys.path and os.path.isdir(DEPS):
        sys.path.append(DEPS)
    try:
        import hypothesis  # noqa: F401

        return
    except ImportError:
        if not install:
            raise
    os.makedirs(DEPS, exist_ok=True)
    cmd = [
        sys.executable, "-m", "pip", "install", "--quiet", "--no-index", "--find-links", WHEELS,
        "--target", DEPS, "hypothesis",
    ]
    proc = subprocess.run(cmd, capture_output=True, text=True)
    if proc.returncode != 0:
        raise HarnessError(f"cannot install hypothesis offline: {proc.stderr[-2000:]}")
    if DEPS not in sys.path:
        sys.path.append(DEPS)
    import hypothesis  # noqa: F401


def setup_paths() -> None:
    """Put the repository under test first on sys.path and check that AutoCarver comes from it."""
    root = repo_root()
    if PBT_ROOT not in sys.path:
        sys.path.insert(0, PBT_ROOT)
    # the repo goes first so that an editable install elsewhere can never win
    sys.path[:] = [p for p in sys.path if os.path.abspath(p or ".") != root]
    sys.path.insert(0, root)
    os.environ.setdefault("PYTHONHASHSEED", "0")
    import warnings

    warnings.filterwarnings("ignore")
    import AutoCarver

    where = os.path.abspath(AutoCarver.__file__)
    if not where.startswith(root + os.sep):
        raise HarnessError(f"AutoCarver imported from {where}, expected under {root}")


def bootstrap() -> None:
    ensure_deps()
    setup_paths()
