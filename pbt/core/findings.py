"""Known findings: committed, read-only at run time."""
import json
import os

from .bootstrap import VERIF_ROOT, HarnessError

PATH = os.path.join(VERIF_ROOT, "known_findings.json")


class Findings:
    def __init__(self) -> None:
        self.entries = []
        if os.path.exists(PATH):
            with open(PATH, encoding="utf-8") as fh:
                data = json.load(fh)
            self.entries = data.get("findings", [])
        for entry in self.entries:
            if entry.get("status") not in ("open", "fixed"):
                raise HarnessError(f"bad known finding entry: {entry}")

    def match_open(self, pid: str, signature: str):
        """Returns the open entry listing exactly this violation signature, if any.
        Fixed entries never suppress anything."""
        for entry in self.entries:
            if (
                entry.get("status") == "open"
                and entry.get("property") == pid
                and entry.get("signature") == signature
            ):
                return entry
        return None
