"""Outcome of one property evaluation and helpers to observe the code under test."""
import hashlib
import json
import math
import os
import traceback
from dataclasses import dataclass, field
from typing import Any, Callable, Optional


@dataclass
class Outcome:
    status: str = "ok"  # ok | violation | discard
    signature: str = ""  # for violations: root-cause bucket; for discards: reason
    message: str = ""
    labels: list = field(default_factory=list)
    nontrivial: bool = False
    extra_violations: list = field(default_factory=list)  # further (signature, message) pairs

    def label(self, *names: str) -> None:
        for name in names:
            if name not in self.labels:
                self.labels.append(name)

    def violate(self, signature: str, message: str) -> None:
        """Records a violation; the first one recorded is the outcome's main signature."""
        if self.status != "violation":
            self.status = "violation"
            self.signature = signature
            self.message = message
        else:
            self.extra_violations.append((signature, message))

    def all_violations(self):
        if self.status != "violation":
            return []
        return [(self.signature, self.message)] + list(self.extra_violations)


def discard(reason: str, labels=()) -> Outcome:
    return Outcome(status="discard", signature=reason, labels=list(labels))


@dataclass
class Res:
    """Result of calling the code under test: either a value or the exception it raised."""

    value: Any = None
    exc: Optional[BaseException] = None
    frame: str = ""  # innermost AutoCarver frame "file:function"
    outer: str = ""  # outermost AutoCarver frame

    @property
    def ok(self) -> bool:
        return self.exc is None

    @property
    def exc_type(self) -> str:
        return type(self.exc).__name__ if self.exc is not None else ""

    def bucket(self) -> str:
        """(exception type, innermost package frame, normalised message prefix)."""
        msg = _normalise(str(self.exc))[:60]
        return f"{self.exc_type}@{self.frame}:{msg}"


def _normalise(msg: str) -> str:
    out = []
    for ch in msg:
        out.append("#" if ch.isdigit() else ch)
    text = "".join(out)
    while "##" in text:
        text = text.replace("##", "#")
    return " ".join(text.split())


def observe(fn: Callable, *args, **kwargs) -> Res:
    """Calls the code under test. Exceptions are observed behaviour, not harness errors."""
    try:
        return Res(value=fn(*args, **kwargs))
    except (KeyboardInterrupt, SystemExit, MemoryError):
        raise
    except BaseException as exc:  # noqa: BLE001 - observing the code under test
        inner, outer = "", ""
        for fs in traceback.extract_tb(exc.__traceback__):
            fname = fs.filename.replace("\\", "/")
            if "/AutoCarver/" in fname:
                loc = f"{fname.split('/AutoCarver/')[-1]}:{fs.name}"
                if not outer:
                    outer = loc
                inner = loc
        return Res(exc=exc, frame=inner or "outside-package", outer=outer)


def canonical(case: Any) -> str:
    return json.dumps(case, sort_keys=True, separators=(",", ":"), default=_json_default)


def _json_default(obj):
    import numpy as np

    if isinstance(obj, (np.integer,)):
        return int(obj)
    if isinstance(obj, (np.floating,)):
        return float(obj)
    if isinstance(obj, np.ndarray):
        return obj.tolist()
    if isinstance(obj, (set, frozenset)):
        return sorted(obj, key=repr)
    return repr(obj)


def case_hash(case: Any) -> str:
    return hashlib.sha1(canonical(case).encode()).hexdigest()[:16]


def trim(obj: Any, max_list: int = 40, depth: int = 0) -> Any:
    """Shortens long lists so that evidence samples stay readable."""
    if isinstance(obj, dict):
        return {str(k): trim(v, max_list, depth + 1) for k, v in obj.items()}
    if isinstance(obj, (list, tuple)):
        items = [trim(v, max_list, depth + 1) for v in obj[:max_list]]
        if len(obj) > max_list:
            items.append(f"...(+{len(obj) - max_list} more)")
        return items
    if isinstance(obj, float) and (math.isnan(obj) or math.isinf(obj)):
        return repr(obj)
    return obj
