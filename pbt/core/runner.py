"""Sharded Hypothesis runner: corpus replay, generation, violation handling, evidence."""
import importlib
import json
import multiprocessing
import os
import sys
import time
import traceback
from collections import Counter

from .bootstrap import VERIF_ROOT, HarnessError, bootstrap
from .findings import Findings
from .outcome import Outcome, canonical, case_hash, trim

OUT_ROOT = os.environ.get("VERIF_OUT", VERIF_ROOT)  # sensitivity runs redirect their outputs
EVIDENCE_DIR = os.path.join(OUT_ROOT, "evidence")
CORPUS_DIR = os.path.join(VERIF_ROOT, "corpus")
REPLAY_DIR = os.path.join(OUT_ROOT, "replays")

PROPS = {
    "C01": "props.c01_optimal_grouping",
    "C02": "props.c02_constraints",
    "C03": "props.c03_order",
    "C04": "props.c04_mapping",
    "C05": "props.c05_unseen",
    "C06": "props.c06_json",
    "C07": "props.c07_purity",
    "C08": "props.c08_fit_coherent",
    "C09": "props.c09_min_freq",
    "C10": "props.c10_independence",
    "C11": "props.c11_reencoding",
    "C12": "props.c12_multiclass",
    "C13": "props.c13_grouped_list",
    "C14": "props.c14_selectors",
    "C15": "props.c15_selector_invariance",
    "C16": "props.c16_summary_history",
    "C17": "props.c17_update",
    "C18": "props.c18_chained",
    "C19": "props.c19_malformed",
}


class ViolationFound(Exception):
    """Raised inside the Hypothesis test so that the failing case gets shrunk."""


def load_prop(pid: str):
    if pid not in PROPS:
        raise HarnessError(f"unknown property {pid}")
    return importlib.import_module(PROPS[pid])


class Stats:
    def __init__(self) -> None:
        self.evaluations = 0
        self.nontrivial = set()
        self.classes = Counter()
        self.discards = Counter()
        self.known_hits = Counter()
        self.samples = []
        self.violations = {}  # signature -> dict(case, message)
        self.skipped_after_deadline = 0

    def to_json(self) -> dict:
        return {
            "evaluations": self.evaluations,
            "nontrivial": sorted(self.nontrivial),
            "classes": dict(self.classes),
            "discards": dict(self.discards),
            "known_hits": dict(self.known_hits),
            "samples": self.samples,
            "violations": self.violations,
            "skipped_after_deadline": self.skipped_after_deadline,
        }


def evaluate(mod, case, stats: Stats, findings: Findings, keep_sample: bool = True):
    """Runs check_case, updates the statistics and returns the list of *unlisted* violations."""
    out: Outcome = mod.check_case(case)
    stats.evaluations += 1
    for label in out.labels:
        stats.classes[label] += 1
    if out.status == "discard":
        stats.discards[out.signature] += 1
        return []
    if out.nontrivial:
        digest = case_hash(case)
        if digest not in stats.nontrivial:
            stats.nontrivial.add(digest)
            if keep_sample and len(stats.samples) < 3:
                stats.samples.append(trim(json.loads(canonical(case)), 24))
    fresh = []
    for signature, message in out.all_violations():
        entry = findings.match_open(mod.PID, signature)
        if entry is not None:
            stats.known_hits[signature] += 1
        else:
            fresh.append((signature, message))
    return fresh


def shard_main(pid, tier, seed_value, shard, n_examples, deadline_s, conn) -> None:
    """One shard = one process running the property under its own Hypothesis seed."""
    try:
        sys.stdout = open(os.devnull, "w")  # the package prints; only the parent reports
        bootstrap()
        import hypothesis
        from hypothesis import HealthCheck, Phase, given, settings

        mod = load_prop(pid)
        findings = Findings()
        stats = Stats()
        state = {"target": None, "last": None, "t_found": None}
        t_end = time.time() + deadline_s
        shrink_budget = float(os.environ.get("VERIF_SHRINK_S", 45 if tier == "quick" else 240))

        phases = [Phase.generate, Phase.target, Phase.shrink]

        @hypothesis.seed(seed_value * 100003 + shard)
        @settings(
            max_examples=n_examples,
            database=None,
            deadline=None,
            derandomize=False,
            report_multiple_bugs=False,
            phases=phases,
            suppress_health_check=[HealthCheck.too_slow, HealthCheck.data_too_large],
            print_blob=False,
        )
        @given(mod.strategy(tier))
        def the_test(case):
            if state["target"] is None and time.time() > t_end:
                stats.skipped_after_deadline += 1
                return
            if state["t_found"] is not None and time.time() - state["t_found"] > shrink_budget:
                return  # shrinking budget used up: keep the smallest failing case seen so far
            fresh = evaluate(mod, case, stats, findings)
            for signature, message in fresh:
                if signature not in stats.violations:
                    stats.violations[signature] = {"case": case, "message": message}
                if state["target"] is None:
                    state["target"] = signature
                    state["t_found"] = time.time()
                if signature == state["target"]:
                    # keep the smallest case seen for the signature being shrunk
                    state["last"] = {"case": case, "message": message}
                    raise ViolationFound(signature)

        try:
            the_test()
        except ViolationFound:
            pass
        except hypothesis.errors.Flaky:
            if state["target"] is None:
                raise  # a genuinely flaky property is a harness problem
        except hypothesis.errors.FailedHealthCheck as exc:
            raise HarnessError(f"health check failed (fix the generator): {exc}") from exc
        if state["target"] is not None and state["last"] is not None:
            stats.violations[state["target"]] = state["last"]  # shrunk
        conn.send({"ok": True, "stats": stats.to_json()})
    except BaseException as exc:  # noqa: BLE001
        conn.send({"ok": False, "error": "".join(traceback.format_exception(exc))[-6000:]})
    finally:
        conn.close()


def replay_corpus(mod, stats: Stats, findings: Findings):
    """Saved regression cases run first, bypassing Hypothesis."""
    found = []
    folder = os.path.join(CORPUS_DIR, mod.PID)
    if not os.path.isdir(folder):
        return found
    for name in sorted(os.listdir(folder)):
        if not name.endswith(".json"):
            continue
        path = os.path.join(folder, name)
        with open(path, encoding="utf-8") as fh:
            doc = json.load(fh)
        case = doc["case"] if isinstance(doc, dict) and "case" in doc else doc
        for signature, message in evaluate(mod, case, stats, findings, keep_sample=False):
            found.append((signature, message, case, path))
        stats.classes["corpus_case"] += 1
    return found


def write_replay(pid: str, signature: str, message: str, case) -> str:
    folder = os.path.join(REPLAY_DIR, pid)
    os.makedirs(folder, exist_ok=True)
    path = os.path.join(folder, f"{case_hash(case)}.json")
    with open(path, "w", encoding="utf-8") as fh:
        fh.write(
            json.dumps(
                {"property": pid, "signature": signature, "message": message, "case": json.loads(canonical(case))},
                indent=1,
            )
        )
    return path


def run_property(pid: str, tier: str, seed_value: int, shards: int = None, examples: int = None) -> int:
    t0 = time.time()
    bootstrap()
    mod = load_prop(pid)
    findings = Findings()
    shards = shards or int(os.environ.get("VERIF_SHARDS", getattr(mod, "SHARDS", 16)))
    total = examples or int(os.environ.get("VERIF_EXAMPLES", 0)) or mod.BUDGET[tier]
    per_shard = max(1, -(-total // shards))
    deadline_s = float(os.environ.get("VERIF_DEADLINE_S", getattr(mod, "DEADLINE_S", {"quick": 240, "thorough": 3000})[tier]))

    master = Stats()
    violations = []  # (signature, message, case, replay_path or None)

    # 1. corpus (the package prints: silence it while the code under test runs)
    import contextlib

    with open(os.devnull, "w") as devnull, contextlib.redirect_stdout(devnull):
        corpus_found = replay_corpus(mod, master, findings)
    for signature, message, case, path in corpus_found:
        violations.append((signature, message, case, path))

    # 2. optional property-specific deterministic part (bounded exhaustive enumeration ...)
    extra_cov = {}
    if hasattr(mod, "extra_run"):
        with open(os.devnull, "w") as devnull, contextlib.redirect_stdout(devnull):
            extra = mod.extra_run(tier, seed_value, findings)
        master.evaluations += extra.get("evaluations", 0)
        master.nontrivial |= set(extra.get("nontrivial", []))
        for label, count in extra.get("classes", {}).items():
            master.classes[label] += count
        for sig, count in extra.get("known_hits", {}).items():
            master.known_hits[sig] += count
        for signature, message, case in extra.get("violations", []):
            violations.append((signature, message, case, None))
        extra_cov = extra.get("coverage", {})

    # 3. generated cases, one process per shard
    ctx = multiprocessing.get_context("fork")
    procs = []
    for shard in range(shards):
        parent_conn, child_conn = ctx.Pipe(duplex=False)
        proc = ctx.Process(
            target=shard_main,
            args=(pid, tier, seed_value, shard, per_shard, deadline_s, child_conn),
        )
        proc.start()
        child_conn.close()
        procs.append((proc, parent_conn))
    errors = []
    incomplete = 0
    shard_evals = []
    for shard, (proc, conn) in enumerate(procs):
        try:
            msg = conn.recv()
        except EOFError:
            msg = {"ok": False, "error": f"shard {shard} died without result"}
        proc.join()
        if not msg["ok"]:
            errors.append(msg["error"])
            continue
        st = msg["stats"]
        shard_evals.append(st["evaluations"])
        master.evaluations += st["evaluations"]
        master.nontrivial |= set(st["nontrivial"])
        master.classes.update(st["classes"])
        master.discards.update(st["discards"])
        master.known_hits.update(st["known_hits"])
        incomplete += st["skipped_after_deadline"]
        if len(master.samples) < 4:
            master.samples.extend(st["samples"][: 4 - len(master.samples)])
        for signature, info in st["violations"].items():
            violations.append((signature, info["message"], info["case"], None))

    if errors:
        sys.stderr.write("HARNESS ERROR\n" + "\n---\n".join(errors) + "\n")
        return 2

    # one VIOLATION line per distinct signature (smallest case wins)
    by_sig = {}
    for signature, message, case, path in violations:
        size = len(canonical(case))
        if signature not in by_sig or size < by_sig[signature][0]:
            by_sig[signature] = (size, message, case, path)
    for signature in sorted(master.known_hits):
        entry = findings.match_open(pid, signature)
        print(f"KNOWN-FINDING: property={pid} {entry['what']} [{signature}] hits={master.known_hits[signature]}")
    for signature, (_, message, case, path) in sorted(by_sig.items()):
        if path is None:
            path = write_replay(pid, signature, message, case)
        print(f"VIOLATION property={pid} replay={path}")
        print(f"  signature: {signature}\n  message: {message[:1500]}")

    if not master.samples:
        # fall back to any evaluated case description so that samples is never empty
        master.samples.append({"note": "no non-trivial sample recorded"})
    coverage = {
        "evaluations": master.evaluations,
        "distinct_nontrivial": len(master.nontrivial),
        "rule": mod.RULE,
        "samples": master.samples,
        "classes": dict(sorted(master.classes.items())),
        "discards": dict(master.discards),
        "known_finding_hits": dict(master.known_hits),
        "shards": shards,
        "examples_per_shard": per_shard,
        "evaluations_per_shard": shard_evals,
        "incomplete_examples_skipped_after_deadline": incomplete,
        "bounds": getattr(mod, "BOUNDS", {}),
        "violation_signatures": sorted(by_sig),
        "exhaustive": False,
    }
    coverage.update(extra_cov)
    evidence = {
        "property_id": pid,
        "tier": tier,
        "seed": seed_value,
        "level": "exploration",
        "coverage": coverage,
        "assumptions": getattr(mod, "ASSUMPTIONS", []),
        "wall_s": round(time.time() - t0, 2),
        "violations": len(by_sig),
    }
    os.makedirs(EVIDENCE_DIR, exist_ok=True)
    with open(os.path.join(EVIDENCE_DIR, f"{pid}.json"), "w", encoding="utf-8") as fh:
        json.dump(evidence, fh, indent=1, default=str)
        fh.write("\n")
    print(
        f"[{pid}] tier={tier} seed={seed_value} evaluations={master.evaluations} "
        f"distinct_nontrivial={len(master.nontrivial)} known_hits={sum(master.known_hits.values())} "
        f"violations={len(by_sig)} wall={evidence['wall_s']}s"
    )
    return 1 if by_sig else 0


def run_replay(path: str) -> int:
    bootstrap()
    with open(path, encoding="utf-8") as fh:
        doc = json.load(fh)
    pid = doc.get("property")
    if pid is None:
        # corpus files live in corpus/<pid>/
        pid = os.path.basename(os.path.dirname(os.path.abspath(path)))
    mod = load_prop(pid)
    findings = Findings()
    import contextlib

    with open(os.devnull, "w") as devnull, contextlib.redirect_stdout(devnull):
        out = mod.check_case(doc["case"] if "case" in doc else doc)
    status = 0
    for signature, message in out.all_violations():
        if findings.match_open(pid, signature):
            print(f"KNOWN-FINDING: property={pid} [{signature}] {message[:300]}")
            continue
        print(f"VIOLATION property={pid} replay={path}")
        print(f"  signature: {signature}\n  message: {message[:3000]}")
        status = 1
    if status == 0:
        verdict = "known-finding only" if out.status == "violation" else out.status
        print(f"[{pid}] replay {path}: {verdict} labels={out.labels}")
    return status
