"""Runs the atheris targets as sub-processes (several libFuzzer seeds in parallel) and collects violations."""
import glob
import json
import os
import shutil
import subprocess
import sys
import time

from core.bootstrap import DEPS, VERIF_ROOT

HERE = os.path.dirname(os.path.abspath(__file__))


def available() -> bool:
    return os.path.isdir(os.path.join(DEPS, "atheris")) or _try_install()


def _try_install() -> bool:
    os.makedirs(DEPS, exist_ok=True)
    proc = subprocess.run(
        [sys.executable, "-m", "pip", "install", "--quiet", "--no-index", "--find-links", "/opt/veriftools/wheels", "--target", DEPS, "atheris"],
        capture_output=True, text=True,
    )
    return proc.returncode == 0 and os.path.isdir(os.path.join(DEPS, "atheris"))


def run(target: str, seed_value: int, runs: int, jobs: int = 4, max_len: int = 256, timeout_s: int = 1500):
    """Returns dict(evaluations, violations=[(signature, message, case)], note)."""
    if not available():
        return {"evaluations": 0, "violations": [], "note": "atheris not installable from the local wheelhouse: fuzz part skipped"}
    scratch = os.path.join(VERIF_ROOT, ".scratch", f"fuzz_{target}_{os.getpid()}")
    shutil.rmtree(scratch, ignore_errors=True)
    procs = []
    for j in range(jobs):
        out = os.path.join(scratch, f"job{j}")
        os.makedirs(os.path.join(out, "corpus"), exist_ok=True)
        cmd = [sys.executable, os.path.join(HERE, "fuzz_targets.py"), target, out, f"-runs={runs}", f"-seed={seed_value * 10 + j + 1}",
               f"-max_len={max_len}", f"-artifact_prefix={out}/", os.path.join(out, "corpus")]
        procs.append((out, subprocess.Popen(cmd, stdout=subprocess.DEVNULL, stderr=open(os.path.join(out, "log"), "w"), env=dict(os.environ, PYTHONHASHSEED="0"))))
    deadline = time.time() + timeout_s
    total, violations, seen = 0, [], set()
    for out, proc in procs:
        try:
            proc.wait(timeout=max(1, deadline - time.time()))
        except subprocess.TimeoutExpired:
            proc.kill()
        log = open(os.path.join(out, "log"), errors="replace").read()
        done = [l for l in log.splitlines() if l.startswith("Done ")]
        if done:
            total += int(done[-1].split()[1])
        else:
            pulses = [l for l in log.splitlines() if l.startswith("#")]
            if pulses:
                total += int(pulses[-1].split()[0].lstrip("#"))
        for path in glob.glob(os.path.join(out, "violation_*.json")):
            doc = json.load(open(path))
            if doc["signature"] not in seen:
                seen.add(doc["signature"])
                violations.append((doc["signature"], "[atheris] " + doc["message"], doc["case"]))
    shutil.rmtree(scratch, ignore_errors=True)
    return {"evaluations": total, "violations": violations, "note": f"atheris/libFuzzer, {jobs} jobs x {runs} runs, seeds {seed_value * 10 + 1}..{seed_value * 10 + jobs}"}
