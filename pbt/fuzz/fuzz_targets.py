#!/venv/bin/python
"""Coverage-guided fuzz targets (atheris / libFuzzer) driving the same oracles as the Hypothesis checks.

    fuzz_targets.py c13 <out_dir> [libFuzzer flags...]     GroupedList operation sequences vs the reference model
    fuzz_targets.py c06 <out_dir> [libFuzzer flags...]     values_orders JSON (de)serialisation round trip

Bytes are decoded into a structured case through FuzzedDataProvider; the semantic oracle lives inside the
target. A violation that is not an open known finding is written to <out_dir>/violation_<sig-hash>.json
(same format as the replay files of run.py) and the process aborts, so libFuzzer keeps the crashing input.
"""
import hashlib
import json
import os
import sys

HERE = os.path.dirname(os.path.dirname(os.path.abspath(__file__)))
sys.path.insert(0, HERE)

from core.bootstrap import DEPS, HarnessError, ensure_deps, repo_root  # noqa: E402

ensure_deps()
if DEPS not in sys.path:
    sys.path.append(DEPS)
import atheris  # noqa: E402

TARGET = sys.argv[1]
OUT = sys.argv[2]
os.makedirs(OUT, exist_ok=True)

# the repository's working tree first on the path; the package is imported under instrumentation (it must not
# have been imported before, so core.bootstrap.setup_paths - which imports it - is not used here)
ROOT = repo_root()
sys.path[:] = [p for p in sys.path if os.path.abspath(p or ".") != ROOT]
sys.path.insert(0, ROOT)
import warnings  # noqa: E402

warnings.filterwarnings("ignore")
with atheris.instrument_imports(include=["AutoCarver.discretizers.utils.grouped_list", "AutoCarver.discretizers.utils.serialization"]):
    import AutoCarver  # noqa: F401
if not os.path.abspath(AutoCarver.__file__).startswith(ROOT + os.sep):
    raise HarnessError(f"AutoCarver imported from {AutoCarver.__file__}, expected under {ROOT}")

from core.findings import Findings  # noqa: E402
from core.outcome import canonical  # noqa: E402

FINDINGS = Findings()
STATS = {"runs": 0, "nontrivial": 0}


def report(pid, signature, message, case):
    if FINDINGS.match_open(pid, signature):
        return
    name = hashlib.sha1(signature.encode()).hexdigest()[:12]
    path = os.path.join(OUT, f"violation_{name}.json")
    if not os.path.exists(path):
        with open(path, "w", encoding="utf-8") as fh:
            fh.write(json.dumps({"property": pid, "signature": signature, "message": message, "case": json.loads(canonical(case))}, indent=1))
    raise RuntimeError(f"VIOLATION {pid} {signature}")


# ----------------------------------------------------------------------------- C13
def decode_c13(data):
    import props.c13_grouped_list as c13

    fdp = atheris.FuzzedDataProvider(data)
    n_univ = len(c13.UNIVERSE)
    kind = fdp.ConsumeIntInRange(0, 2)
    if kind == 0:
        items = []
        for _ in range(fdp.ConsumeIntInRange(0, 7)):
            v = fdp.ConsumeIntInRange(0, n_univ - 1)
            if v not in items:
                items.append(v)
        init = {"kind": "list", "items": items}
    elif kind == 1:
        items = []
        for _ in range(fdp.ConsumeIntInRange(1, 9)):
            v = fdp.ConsumeIntInRange(0, n_univ - 1)
            if v not in items:
                items.append(v)
        n_groups = fdp.ConsumeIntInRange(1, len(items))
        groups = [[leader, []] for leader in items[:n_groups]]
        for extra in items[n_groups:]:
            groups[fdp.ConsumeIntInRange(0, n_groups - 1)][1].append(extra)
        pairs = []
        for leader, members in groups:
            pairs.append([leader, members + [leader] if fdp.ConsumeBool() else ([leader] + members if fdp.ConsumeBool() else members)])
        init = {"kind": "dict", "pairs": pairs}
    else:
        pool = [0, 1, 2, 3, 4, 10, 11] if fdp.ConsumeBool() else [5, 6, 7, 8, 9]
        items = []
        for _ in range(fdp.ConsumeIntInRange(0, 5)):
            v = pool[fdp.ConsumeIntInRange(0, len(pool) - 1)]
            if v not in items:
                items.append(v)
        init = {"kind": "array", "items": items}
    names = ["group", "group_list", "append", "update", "split", "remove", "pop", "sort", "sort_by", "replace", "copy", "dict_roundtrip",
             "get_default", "bad_group", "bad_replace", "bad_remove", "bad_pop", "bad_sort_by"]
    ops = []
    for _ in range(fdp.ConsumeIntInRange(1, 30)):
        name = names[fdp.ConsumeIntInRange(0, len(names) - 1)]
        a, b = fdp.ConsumeIntInRange(0, 11), fdp.ConsumeIntInRange(0, 11)
        if name == "group":
            ops.append([name, a, b])
        elif name == "group_list":
            ops.append([name, [a, fdp.ConsumeIntInRange(0, 11)], b])
        elif name in ("append", "remove", "pop"):
            ops.append([name, a])
        elif name == "update":
            ops.append([name, [[fdp.ConsumeIntInRange(-3, 11), [b]]]])
        elif name == "split":
            ops.append([name, a, fdp.ConsumeIntInRange(1, 62)])
        elif name in ("sort", "copy", "dict_roundtrip"):
            ops.append([name])
        elif name == "sort_by":
            ops.append([name, fdp.ConsumeIntInRange(0, 10**6)])
        elif name == "replace":
            ops.append([name, a, b])
        elif name == "get_default":
            ops.append([name, a % n_univ, ["none", "scalar", "list"][b % 3]])
        elif name == "bad_group":
            ops.append([name, a % n_univ, b, fdp.ConsumeBool()])
        elif name == "bad_replace":
            ops.append([name, a, b % n_univ])
        elif name == "bad_remove":
            ops.append([name, a % n_univ])
        elif name == "bad_pop":
            ops.append([name, a % 4])
        else:
            ops.append([name, "missing" if fdp.ConsumeBool() else "unknown"])
    return {"universe": "full", "init": init, "ops": ops}


def target_c13(data):
    import props.c13_grouped_list as c13

    case = decode_c13(data)
    out = c13.check_case(case)
    STATS["runs"] += 1
    STATS["nontrivial"] += bool(out.nontrivial)
    for signature, message in out.all_violations():
        report("C13", signature, message, case)


# ----------------------------------------------------------------------------- C06 (serialisation core)
def target_c06(data):
    """values_orders -> JSON string -> values_orders must preserve order, content and value types that matter."""
    import numpy as np

    from AutoCarver.discretizers.utils.grouped_list import GroupedList
    from AutoCarver.discretizers.utils.serialization import json_deserialize_values_orders, json_serialize_values_orders

    fdp = atheris.FuzzedDataProvider(data)
    orders = {}
    case = {"features": []}
    for f_n in range(fdp.ConsumeIntInRange(1, 3)):
        quantitative = fdp.ConsumeBool()
        groups = []
        if quantitative:
            n = fdp.ConsumeIntInRange(1, 6)
            # mantissa / divisor * 10**exponent: keeps most values inside every dtype's range (raw doubles from
            # the byte stream overflow float32 or flush to zero almost always)
            vals = sorted(
                {
                    fdp.ConsumeIntInRange(-(10**6), 10**6) / fdp.ConsumeIntInRange(1, 1000) * 10.0 ** fdp.ConsumeIntInRange(-30, 30)
                    if fdp.ConsumeBool()
                    else fdp.ConsumeRegularFloat()
                    for _ in range(n * 2)
                }
            )
            vals = [v for v in vals if v == v and abs(v) != float("inf")]
            flavour = fdp.ConsumeIntInRange(0, 3)
            conv = [float, np.float64, np.float32, lambda v: np.int64(int(max(-1e15, min(1e15, v))))][flavour]
            vals = sorted({conv(v) for v in vals}, key=float)
            vals = [v for v in vals if np.isfinite(v)]
            i = 0
            while i < len(vals):
                size = fdp.ConsumeIntInRange(1, 3)
                chunk = vals[i : i + size]
                groups.append((chunk[-1], list(chunk)))
                i += size
            groups.append((float("inf"), [float("inf")]))
            if fdp.ConsumeBool():
                groups[fdp.ConsumeIntInRange(0, len(groups) - 1)][1].append("__NAN__")
        else:
            pool = ["a", "B", "10", "2.5", "", "x y", "__OTHER__", "é", "numpy.inf"]
            used = []
            for _ in range(fdp.ConsumeIntInRange(1, 5)):
                leader = pool[fdp.ConsumeIntInRange(0, len(pool) - 1)]
                if leader in used:
                    continue
                members = [leader]
                used.append(leader)
                if fdp.ConsumeBool():
                    num = [10, 2.5, 7, -1.0][fdp.ConsumeIntInRange(0, 3)]
                    if not any(isinstance(m, (int, float)) and m == num for g in groups for m in g[1]):
                        members = [num] + members
                groups.append((leader, members))
            if fdp.ConsumeBool() and "__NAN__" not in used:
                groups.append(("__NAN__", ["__NAN__"]))
        if not groups:
            continue
        name = f"f{f_n}"
        orders[name] = GroupedList({leader: list(members) for leader, members in groups})
        case["features"].append({"name": name, "groups": [[repr(l), [repr(m) for m in ms]] for l, ms in groups]})
    if not orders:
        return
    STATS["runs"] += 1
    try:
        dumped = json_serialize_values_orders(orders)
        json.loads(dumped)
        loaded = json_deserialize_values_orders(dumped)
    except Exception as exc:  # noqa: BLE001
        if any(isinstance(l, str) and l == "numpy.inf" for o in orders.values() for l in o):
            return  # the literal string 'numpy.inf' is the documented sentinel: not a valid category name
        report("C06", f"serialisation-core-raised:{type(exc).__name__}", repr(exc), case)
        return
    for name, order in orders.items():
        back = loaded.get(name)
        if back is None or len(back) != len(order):
            if any(isinstance(l, str) and l == "numpy.inf" for l in order):
                continue
            report("C06", "serialisation-core:order-length-differs", f"{name}: {list(order)!r} -> {None if back is None else list(back)!r}", case)
            continue
        for a, b in zip(order, back):
            same = (isinstance(a, str) and isinstance(b, str) and a == b) or (not isinstance(a, str) and not isinstance(b, str) and float(a) == float(b))
            if not same:
                if isinstance(a, str) and a == "numpy.inf":
                    break
                report("C06", "serialisation-core:leader-differs", f"{name}: {a!r} -> {b!r}", case)
            ma = sorted(repr(m) if isinstance(m, str) else repr(float(m)) for m in order.content[a])
            mb = sorted(repr(m) if isinstance(m, str) else repr(float(m)) for m in back.content[b])
            if ma != mb and "'numpy.inf'" not in ma:
                report("C06", "serialisation-core:content-differs", f"{name}: group {a!r}: {ma} -> {mb}", case)
    STATS["nontrivial"] += 1


def main():
    target = {"c13": target_c13, "c06": target_c06}[TARGET]
    argv = [sys.argv[0]] + sys.argv[3:]
    atheris.Setup(argv, target)
    atheris.Fuzz()


if __name__ == "__main__":
    main()
