"""Construction of the objects under test from a case's "object" spec."""
from hypothesis import strategies as st

from core.outcome import observe
from gen.samples import carver_config, feature_lists, sample_case

CARVERS = ("BinaryCarver", "ContinuousCarver", "MulticlassCarver")
PIPELINES = ("Discretizer", "QuantitativeDiscretizer", "QualitativeDiscretizer")
STEPS = ("ContinuousDiscretizer", "CategoricalDiscretizer", "OrdinalDiscretizer", "StringDiscretizer")

MIN_FREQS = [0.02, 0.05, 0.1, 0.12, 0.15, 0.2, 0.25, 0.3, 0.4, 0.5]

# feature kinds each class can be given
KINDS = {
    "BinaryCarver": ("continuous", "discrete", "ordinal", "categorical"),
    "ContinuousCarver": ("continuous", "discrete", "ordinal", "categorical"),
    "MulticlassCarver": ("continuous", "discrete", "ordinal", "categorical"),
    "Discretizer": ("continuous", "discrete", "ordinal", "categorical"),
    "QuantitativeDiscretizer": ("continuous", "discrete"),
    "QualitativeDiscretizer": ("ordinal", "categorical"),
    "ContinuousDiscretizer": ("continuous", "discrete"),
    "CategoricalDiscretizer": ("categorical",),
    "OrdinalDiscretizer": ("ordinal",),
    "StringDiscretizer": ("categorical",),
    "ChainedDiscretizer": ("categorical",),
}


def target_kinds_for(cls):
    if cls == "BinaryCarver":
        return ("binary",)
    if cls == "ContinuousCarver":
        return ("continuous",)
    if cls == "MulticlassCarver":
        return ("multiclass",)
    return ("binary", "continuous")


@st.composite
def fitted_case(draw, classes, max_features=3, dev_modes=None, quant_pools=None, allow_missing=True, min_features=1, cat_flavours=None, twin_boost=False, feature_kinds=None):
    """A sample plus the specification of the object to fit on it."""
    cls = draw(st.sampled_from(list(classes)))
    is_carver = cls in CARVERS
    if dev_modes is None:
        dev_modes = ("none", "none", "same", "perturbed", "independent") if is_carver else ("none",)
    case = draw(
        sample_case(
            target_kinds=target_kinds_for(cls),
            feature_kinds=feature_kinds or KINDS[cls],
            min_features=min_features,
            max_features=max_features,
            dev_modes=dev_modes,
            quant_pools=quant_pools,
            allow_missing=allow_missing,
            cat_flavours=cat_flavours,
            twin_boost=twin_boost,
        )
    )
    # integer-valued quantitative columns without missing values are stored as int64 half of the time
    for f in case["features"]:
        if (
            f["kind"] in ("continuous", "discrete")
            and "dtype" not in f
            and all(float(v).is_integer() and abs(v) < 2**53 for v in f["values"])
            and all(r[-1] == 0 for r in f["train"])
            and (f["dev"] is None or all(r[-1] == 0 for r in f["dev"]))
            and draw(st.booleans())
        ):
            f["dtype"] = "int64"
    # feature names: in a share of the cases one name is a '_'-prefix of another (v, v_x, v_x_y)
    if cls != "MulticlassCarver" and len(case["features"]) >= 2 and draw(st.integers(0, 3)) == 0:
        chain = "v"
        for f in case["features"]:
            f["name"] = chain
            chain = chain + "_" + {"continuous": "q", "discrete": "d", "ordinal": "o", "categorical": "c"}[f["kind"]]
    if cls == "ChainedDiscretizer":
        # one feature, string leaves, and a 2-level hierarchy derived from the values: consecutive leaves are
        # grouped by 2-3 under G<i>, all groups under ROOT
        case["features"] = case["features"][:1]
        f = case["features"][0]
        f["values"] = [f"v{n}" for n, _ in enumerate(f["values"])]
        f["flavour"] = "str"
        f["name"] = "c0"
        groups, i = [], 0
        while i < len(f["values"]):
            size = 2 + (i // 2) % 2
            groups.append([f"G{len(groups)}", f["values"][i : i + size]])
            i += size
        levels = [groups, [["ROOT", [g for g, _ in groups]]]]
        # in a third of the cases the last group of leaves is unknown to the hierarchy and unknown_handling='drop'
        # files its values with the missing values (a missing-value group that holds ordinary values)
        unknown = "raise"
        if len(groups) >= 3 and draw(st.integers(0, 2)) == 0:
            unknown = "drop"
            groups.pop()
            levels = [groups, [["ROOT", [g for g, _ in groups]]]]
    if cls in ("CategoricalDiscretizer",):
        # documented for string columns only
        for f in case["features"]:
            if f.get("flavour") in ("ints", "floats", "mixed", "flags", "bools"):
                f["values"] = [f"v{n}" for n, _ in enumerate(f["values"])]
                f["flavour"] = "str"
    if cls in ("OrdinalDiscretizer",):
        # used alone it expects the column to hold the ranked values themselves (strings)
        for f in case["features"]:
            if f["kind"] == "ordinal" and f.get("flavour") == "ints":
                f["values"] = list(f["ranking"])
                f["flavour"] = "str"
    if is_carver:
        cfg = carver_config(draw, case["target"]["kind"])
    else:
        cfg = {"min_freq": draw(st.sampled_from(MIN_FREQS)), "copy": draw(st.booleans())}
    cfg["cls"] = cls
    cfg["n_jobs"] = 1
    if cls == "ChainedDiscretizer":
        cfg["levels"] = levels
        cfg["unknown"] = unknown
    case["config"] = cfg
    # boundary situations by construction: in a quarter of the cases one modality of one feature is given a
    # training count of exactly threshold * n rows (threshold in min_freq, min_freq/2, min_freq_mod)
    if draw(st.integers(0, 3)) == 0:
        from fractions import Fraction

        n = sum(case["target"]["blocks"])
        thresholds = [Fraction(repr(cfg["min_freq"])), Fraction(repr(cfg["min_freq"])) / 2]
        if cfg.get("min_freq_mod") is not None:
            thresholds.append(Fraction(repr(cfg["min_freq_mod"])))
        thr = thresholds[draw(st.integers(0, len(thresholds) - 1))]
        total = thr * n
        candidates = [f for f in case["features"] if f["kind"] != "continuous" and len(f["values"]) >= 2]
        if total.denominator == 1 and 1 <= total < n and candidates:
            f = candidates[draw(st.integers(0, len(candidates) - 1))]
            j = draw(st.integers(0, len(f["values"]) - 1))
            _pin_total(f["train"], j, int(total))
            f["pinned"] = [j, int(total)]
    return case


def _pin_total(table, j, total):
    """Moves rows between modality j and the other modalities (within each target level, so block sizes are
    kept) until modality j holds exactly `total` training rows, if that is possible."""
    n_mod = len(table[0]) - 1
    current = sum(row[j] for row in table)
    diff = total - current
    for row in table:
        if diff == 0:
            break
        others = sorted((k for k in range(n_mod) if k != j), key=lambda k: -row[k])
        if diff > 0:
            for k in others:
                take = min(diff, row[k])
                row[k] -= take
                row[j] += take
                diff -= take
                if diff == 0:
                    break
        else:
            give = min(-diff, row[j])
            if others:
                row[j] -= give
                row[others[0]] += give
                diff += give


def object_dropna(case) -> bool:
    """Whether missing values receive a label (True) or stay missing (False) for the case's object."""
    cfg = case["config"]
    if cfg["cls"] in CARVERS:
        return cfg.get("dropna", True)
    return cfg["cls"] != "ChainedDiscretizer"


def _classes():
    from AutoCarver import BinaryCarver, ContinuousCarver, MulticlassCarver
    from AutoCarver.discretizers import (
        CategoricalDiscretizer,
        ContinuousDiscretizer,
        Discretizer,
        OrdinalDiscretizer,
        QualitativeDiscretizer,
        QuantitativeDiscretizer,
        StringDiscretizer,
    )
    from AutoCarver.discretizers import ChainedDiscretizer

    return {
        "ChainedDiscretizer": ChainedDiscretizer,
        "BinaryCarver": BinaryCarver,
        "ContinuousCarver": ContinuousCarver,
        "MulticlassCarver": MulticlassCarver,
        "Discretizer": Discretizer,
        "QuantitativeDiscretizer": QuantitativeDiscretizer,
        "QualitativeDiscretizer": QualitativeDiscretizer,
        "ContinuousDiscretizer": ContinuousDiscretizer,
        "CategoricalDiscretizer": CategoricalDiscretizer,
        "OrdinalDiscretizer": OrdinalDiscretizer,
        "StringDiscretizer": StringDiscretizer,
    }


def make_object(case, **override):
    """Instantiates the object described by case['config'] (not fitted)."""
    from AutoCarver.discretizers import GroupedList

    cfg = dict(case["config"])
    cfg.update(override)
    cls = cfg["cls"]
    klass = _classes()[cls]
    quant, cat, ordi, rankings = feature_lists(case)
    if "features_subset" in cfg and cfg["features_subset"] is not None:
        keep = set(cfg["features_subset"])
        quant = [f for f in quant if f in keep]
        cat = [f for f in cat if f in keep]
        ordi = [f for f in ordi if f in keep]
    orders = {f: GroupedList(list(rankings[f])) for f in ordi}
    # previous discretization of a categorical feature handed over through values_orders: {feature: [[leader, members]]}
    for f, groups in (cfg.get("pregrouped") or {}).items():
        if f in cat:
            orders[f] = GroupedList({leader: list(members) for leader, members in groups})
    common = {"copy": cfg.get("copy", False), "n_jobs": cfg.get("n_jobs", 1)}
    if cls in CARVERS:
        kwargs = dict(
            min_freq=cfg["min_freq"],
            quantitative_features=quant,
            qualitative_features=cat,
            ordinal_features=ordi,
            values_orders=orders,
            max_n_mod=cfg["max_n_mod"],
            min_freq_mod=cfg["min_freq_mod"],
            output_dtype=cfg["output_dtype"],
            dropna=cfg["dropna"],
            **common,
        )
        if cls != "ContinuousCarver":
            kwargs["sort_by"] = cfg["sort_by"]
        return klass(**kwargs)
    if cls == "Discretizer":
        return klass(quantitative_features=quant, qualitative_features=cat, min_freq=cfg["min_freq"], ordinal_features=ordi, values_orders=orders, **common)
    if cls == "QuantitativeDiscretizer":
        return klass(quantitative_features=quant, min_freq=cfg["min_freq"], **common)
    if cls == "QualitativeDiscretizer":
        return klass(qualitative_features=cat, min_freq=cfg["min_freq"], ordinal_features=ordi, values_orders=orders, **common)
    if cls == "ContinuousDiscretizer":
        return klass(quantitative_features=quant, min_freq=cfg["min_freq"], **common)
    if cls == "CategoricalDiscretizer":
        return klass(qualitative_features=cat, min_freq=cfg["min_freq"], **common)
    if cls == "OrdinalDiscretizer":
        return klass(ordinal_features=ordi, min_freq=cfg["min_freq"], values_orders=orders, **common)
    if cls == "StringDiscretizer":
        return klass(qualitative_features=cat, **common)
    if cls == "ChainedDiscretizer":
        chained = [{parent: list(children) + [parent] for parent, children in level} for level in cfg["levels"]]
        return klass(qualitative_features=cat, min_freq=cfg["min_freq"], chained_orders=chained, unknown_handling=cfg.get("unknown", "raise"), **common)
    raise ValueError(cls)


def fit_object(obj, case, sample, X=None, y=None):
    """Calls fit with the arguments the class expects; returns Res."""
    cls = case["config"]["cls"]
    # the object always gets private copies: with copy=False it may modify its inputs in place, and
    # the oracles need the pristine sample (side effects with copy=True are C07's subject)
    X = (sample.X if X is None else X).copy()
    y = (sample.y if y is None else y).copy()
    if cls in CARVERS and sample.X_dev is not None:
        return observe(obj.fit, X, y, X_dev=sample.X_dev.copy(), y_dev=sample.y_dev.copy())
    return observe(obj.fit, X, y)


def is_quantitative(obj, feature) -> bool:
    return feature in obj.quantitative_features


def fit_base_discretizer(case, sample):
    """The Discretizer a carver fits first (same feature lists, rankings, min_freq): its buckets are
    the carver's base modalities. Returns Res(value=discretizer)."""
    from AutoCarver.discretizers import Discretizer, GroupedList

    quant, cat, ordi, rankings = feature_lists(case)
    orders = {f: GroupedList(list(rankings[f])) for f in ordi}
    disc = Discretizer(
        quantitative_features=quant,
        qualitative_features=cat,
        min_freq=case["config"]["min_freq"],
        ordinal_features=ordi,
        values_orders=orders,
        copy=True,
    )
    res = observe(disc.fit, sample.X.copy(), binary_view(case, sample).copy())
    if res.ok:
        res.value = disc
    return res


def binary_view(case, sample, level=None):
    """Target as the discretizer sees it: the target itself, or (multiclass) a class indicator."""
    if case["target"]["kind"] != "multiclass":
        return sample.y
    levels = sorted(str(v) for v in case["target"]["levels"])
    level = levels[1] if level is None else str(level)
    return (sample.y.astype(str) == level).astype(int)


EDIT_STEP = st.tuples(st.sampled_from(["group", "group", "replace", "nan", "newcat"]), st.integers(0, 5), st.integers(0, 11), st.booleans())
EDIT_STRATEGY = st.lists(EDIT_STEP, max_size=3)


def apply_edits(obj, case, edits):
    """Applies manual edits (update_discretizer) described as data to a fitted object.
    Returns (ok, labelled_nan, labels): ok False when an edit raised (edits themselves are C17's subject);
    labelled_nan = features whose missing values were grouped by hand (they get a label whatever dropna says)."""
    from oracles.views import feature_views

    views = list(feature_views(obj, case))
    labelled_nan, labels = set(), []
    if not views:
        return True, labelled_nan, labels
    for step, (kind, fsel, lsel, flag) in enumerate(edits):
        feat, raw, spec = views[fsel % len(views)]
        order = obj.values_orders[feat]
        non_nan = [l for l in order if not (isinstance(l, str) and l == "__NAN__")]
        quantitative = spec["kind"] in ("continuous", "discrete")
        nan_leader = any(isinstance(l, str) and l == "__NAN__" for l in order)
        nan_known = any(isinstance(m, str) and m == "__NAN__" for l in order for m in order.content.get(l, []))
        if kind == "group" and len(non_nan) >= 2 and spec["kind"] != "categorical":
            i = lsel % (len(non_nan) - 1)
            d, k = (non_nan[i], non_nan[i + 1]) if flag else (non_nan[i + 1], non_nan[i])
            res = observe(obj.update_discretizer, feat, "group", d, k)
        elif kind == "group" and len(non_nan) >= 2:
            res = observe(obj.update_discretizer, feat, "group", non_nan[lsel % len(non_nan)], non_nan[(lsel + 1) % len(non_nan)])
        elif kind == "replace" and not quantitative and non_nan:
            res = observe(obj.update_discretizer, feat, "replace", non_nan[lsel % len(non_nan)], f"RENAMED_{step}")
        elif kind == "nan" and non_nan and (nan_leader or not nan_known):
            res = observe(obj.update_discretizer, feat, "group", float("nan"), non_nan[lsel % len(non_nan)])
            labelled_nan.add(feat)
        elif kind == "newcat" and not quantitative and non_nan:
            res = observe(obj.update_discretizer, feat, "group", f"NEWCAT_{step}", non_nan[lsel % len(non_nan)])
        else:
            continue
        if not res.ok:
            return False, labelled_nan, labels
        labels.append(f"edited:{kind}")
    return True, labelled_nan, labels
