"""Table-first sample generator.

A *case* is a JSON dict holding the complete sample as per-target-level count tables (one table per
feature) plus everything needed to lay the rows out.  `build(case)` materialises DataFrames
deterministically.  All randomness is drawn by Hypothesis (counts, shuffle key), so cases shrink and
replay.
"""
import random
from dataclasses import dataclass, field
from fractions import Fraction
from typing import Any, Optional

import numpy as np
import pandas as pd
from hypothesis import strategies as st

# ----------------------------------------------------------------------------------------- pools
STR_POOL = ["A", "B", "c", "d1", "E_e", "zz", "10", "2", "x y", "K", "m", "Q9", "b", "aa", "Z", ""]
ORD_POOL = ["low", "mid", "high", "z0", "a9", "M", "k", "top", "B2", "c", "x", "10", "2"]
ORD_NUM_POOL = [1, 2, 3, 10, 20, 0, -1, 7, 5, 100]
NUM_CAT_POOLS = {
    "ints": [1, 2, 3, 10, 20, 0, -1, 7],
    "floats": [1.5, 2.0, 3.0, 0.25, 10.0, -2.5, 7.0],
    "numstr": ["1", "2", "3.5", "10", "02", "-1"],
    "bools": [True, False],
    "flags": [0.0, 1.0],
}
# bool-valued qualitative columns are outside the stated input domain ("strings or numbers"): they are only
# generated where the oracle is purely differential (C10), never where correctness of their handling is judged
DEFAULT_CAT_FLAVOURS = ["str", "str", "str", "str", "ints", "floats", "numstr", "mixed", "flags"]
WITH_BOOLS = ["str", "str", "ints", "floats", "numstr", "mixed", "flags", "flags", "flags", "bools", "bools", "bools"]
WEIGHTS = [0, 1, 1, 2, 3, 5, 8]
CONT_WEIGHTS = [0, 1, 1, 1, 2]


def quant_values(kind: str, n: int, start: int, step: int):
    """Sorted distinct numeric modalities of a given flavour (exact in binary64)."""
    ks = [start + i * step for i in range(n)]
    if kind == "small_int":
        return [int(k) for k in ks]
    if kind == "dyadic":
        return [k / 4 for k in ks]
    if kind == "yyyymm":
        return [202301 + (k - start) for k in ks]
    if kind == "big":
        return [1e15 + 2.0 * (k - start) for k in ks]
    if kind == "tiny":
        return [(k - start + 1) * 1e-300 for k in ks]
    if kind == "huge":
        return [(k - start + 1) * 1e300 for k in ks if (k - start + 1) <= 170]
    if kind == "near":
        return [1.0 + (k - start) * 1e-5 for k in ks]
    if kind == "half":
        return [k * 0.5 for k in ks]
    if kind == "ulp":  # neighbouring doubles: distinct values that agree to 16 significant digits
        import math

        vals, v = [], 1.0
        for _ in range(min(n, 12)):
            vals.append(v)
            v = math.nextafter(v, 2.0)
        return vals
    if kind == "tenth":  # not exactly representable: float32 and float64 versions differ
        return sorted({k * 0.1 for k in ks})
    raise ValueError(kind)


def apportion(weights, total: int):
    """Largest-remainder apportionment of `total` rows to non-negative integer weights."""
    weights = [max(0, int(w)) for w in weights]
    wsum = sum(weights)
    if total == 0:
        return [0] * len(weights)
    if wsum == 0:
        weights = [1] + weights[1:]
        wsum = 1
    quotas = [Fraction(w * total, wsum) for w in weights]
    counts = [int(q) for q in quotas]
    rest = total - sum(counts)
    order = sorted(range(len(weights)), key=lambda i: (-(quotas[i] - counts[i]), i))
    for i in order[:rest]:
        counts[i] += 1
    return counts


# ----------------------------------------------------------------------------------------- strategies
@st.composite
def target_spec(draw, kinds=("binary", "continuous")):
    kind = draw(st.sampled_from(list(kinds)))
    if kind == "binary":
        levels = [0, 1]
        blocks = [draw(st.integers(6, 200)), draw(st.integers(6, 200))]
    elif kind == "continuous":
        n_levels = draw(st.integers(3, 9))
        base = draw(st.sampled_from([0, -3, 10, 100]))
        step = draw(st.sampled_from([1, 2, 5]))
        levels = [base + i * step for i in range(n_levels)]
        flavour = draw(st.sampled_from(["int", "half", "eighth", "eighth"]))
        if flavour == "half":
            levels = [float(v) + 0.5 for v in levels]
        elif flavour == "eighth":
            # small-magnitude dyadic values (exact in binary64), several of them inside (-1, 1)
            shift = draw(st.sampled_from([0, -4, -9]))
            levels = [(i * step + shift) / 8 for i in range(n_levels)]
        blocks = [draw(st.integers(3, 60)) for _ in levels]
    else:  # multiclass
        n_levels = draw(st.integers(3, 5))
        flavour = draw(st.sampled_from(["int", "str", "int_str_order"]))
        if flavour == "int":
            levels = list(range(n_levels))
        elif flavour == "str":
            levels = ["cls_a", "B", "c", "dd", "E"][:n_levels]
        else:
            levels = [2, 10, 33, 5, 100][:n_levels]  # string order differs from numeric order ("10" < "2")
        blocks = [draw(st.integers(6, 90)) for _ in levels]
    return {"kind": kind, "levels": levels, "blocks": blocks}


ZERO_POOLS = ("small_int", "dyadic", "half", "tenth")


@st.composite
def feature_spec(draw, name, kind, blocks, dev_mode, dev_blocks, quant_pools=None, allow_missing=True, cat_flavours=None, twin_boost=False, ordinal_numeric=True):
    n_levels = len(blocks)
    spec = {"name": name, "kind": kind}
    zero_at = None
    if kind == "continuous":
        n_mod = draw(st.integers(12, 60))
        pool = draw(st.sampled_from(quant_pools or ["small_int", "dyadic", "dyadic", "half", "yyyymm", "big", "near", "tiny", "huge"]))
        start, step = draw(st.integers(-30, 30)), draw(st.sampled_from([1, 1, 2, 3, 7]))
        if pool in ZERO_POOLS and draw(st.booleans()):
            zero_at = draw(st.integers(0, max(0, n_mod - 2)))  # exactly 0.0 among the values (falsy boundary)
            start = -zero_at * step
        values = quant_values(pool, n_mod, start, step)
        wpool = CONT_WEIGHTS
        spec["pool"] = pool
    elif kind == "discrete":
        n_mod = draw(st.integers(2, 15))
        pool = draw(st.sampled_from(quant_pools or ["small_int", "small_int", "dyadic", "half", "yyyymm", "near", "big", "ulp"]))
        start, step = draw(st.integers(-5, 5)), draw(st.sampled_from([1, 1, 2, 10]))
        if pool in ZERO_POOLS and draw(st.booleans()):
            zero_at = draw(st.integers(0, max(0, n_mod - 2)))
            start = -zero_at * step
        values = quant_values(pool, n_mod, start, step)
        wpool = WEIGHTS
        spec["pool"] = pool
    elif kind == "ordinal":
        n_mod = draw(st.integers(2, 9))
        if ordinal_numeric and draw(st.integers(0, 4)) == 0:
            # integer codes in the column, ranked through their string form (the documented way to order them)
            values = draw(st.permutations(ORD_NUM_POOL))[:n_mod]
            spec["ranking"] = [str(v) for v in values]
            spec["flavour"] = "ints"
            if draw(st.booleans()):
                spec["dtype"] = "native"
        else:
            values = draw(st.permutations(ORD_POOL))[:n_mod]
            spec["ranking"] = list(values)
        wpool = WEIGHTS
    elif kind == "categorical":
        flavour = draw(st.sampled_from(cat_flavours or DEFAULT_CAT_FLAVOURS))
        n_mod = draw(st.integers(2, 10))
        if flavour in ("bools", "flags"):
            n_mod = 2
        if flavour == "str":
            values = draw(st.permutations(STR_POOL))[:n_mod]
        elif flavour == "mixed":
            values = (draw(st.permutations(STR_POOL))[: max(1, n_mod // 2)] + draw(st.permutations(NUM_CAT_POOLS["ints"]))[: n_mod // 2])
        else:
            values = draw(st.permutations(NUM_CAT_POOLS[flavour]))[:n_mod]
        spec["flavour"] = flavour
        if flavour in ("ints", "floats", "flags") and draw(st.booleans()):
            spec["dtype"] = "native"  # int64 / float64 column instead of python numbers in an object column
        wpool = WEIGHTS
    else:
        raise ValueError(kind)
    values = list(values)
    n_mod = len(values)
    spec["values"] = values

    missing_mode = draw(st.sampled_from(["none", "none", "some", "some", "rare"])) if allow_missing else "none"
    spike = draw(st.integers(-1, n_mod - 1)) if draw(st.integers(0, 3)) == 0 else -1
    rare_below = False
    if zero_at is not None and zero_at < n_mod and draw(st.booleans()):
        spike = zero_at  # over-represented 0 (zero-inflated feature)
        rare_below = zero_at >= 1 and draw(st.booleans())  # ... with a few rare negative values just below it
    never = set()
    if kind == "ordinal" and n_mod > 2 and draw(st.integers(0, 2)) == 0:
        never = {draw(st.integers(0, n_mod - 1))}

    # exact ties by construction: modality j copies the weights of modality i in every target level, so
    # both get the same frequency and the same target rate (ties in rates, mirror ties in the measure)
    twins = []
    if kind != "continuous" and n_mod >= 3 and draw(st.integers(0, 2)) <= (1 if twin_boost else 0):
        for _ in range(draw(st.integers(1, 2))):
            i, j = draw(st.integers(0, n_mod - 1)), draw(st.integers(0, n_mod - 1))
            if i != j:
                twins.append((i, j))
    spec["twins"] = twins
    if zero_at is not None:
        spec["zero_at"] = [zero_at, bool(spike == zero_at), bool(rare_below)]

    def table(blocks_):
        rows = []
        for size in blocks_:
            ws = draw(st.lists(st.sampled_from(wpool), min_size=n_mod, max_size=n_mod))
            for i, j in twins:
                ws[j] = ws[i]
            ws = [0 if i in never else w for i, w in enumerate(ws)]
            if spike >= 0:
                ws[spike] = ws[spike] * 10 + 10
            if rare_below:
                for i in range(zero_at):
                    ws[i] = 1 if i == zero_at - 1 else 0
            if missing_mode == "none":
                wm = 0
            elif missing_mode == "rare":
                wm = draw(st.sampled_from([0, 0, 1]))
            else:
                wm = draw(st.sampled_from([1, 2, 3, 5, 8])) * max(1, n_mod // 4)
            rows.append(apportion(ws + [wm], size))
        return rows

    # "U-shaped" tables: exact ties by construction between two NON-adjacent modalities and between the missing
    # values and one modality (counts are set directly; a filler modality absorbs the rest of each block)
    u_shape = kind != "continuous" and n_mod >= 3 and draw(st.integers(0, 9)) < (3 if twin_boost else 1)
    if u_shape:
        i = draw(st.integers(0, n_mod - 3))
        j = draw(st.integers(i + 2, n_mod - 1))
        filler = draw(st.sampled_from([m for m in range(n_mod) if m not in (i, j)]))
        k_nan = draw(st.integers(0, n_mod - 1))
        with_nan = allow_missing and draw(st.integers(0, 2)) > 0
        spec["u_shape"] = [i, j, k_nan if with_nan else None]

        def table_u(blocks_):
            rows = []
            for size in blocks_:
                cap = max(1, size // (n_mod + 2))
                counts = [draw(st.integers(cap // 2, cap)) for _ in range(n_mod)]
                counts[j] = counts[i]
                counts[filler] = 0
                missing = (counts[k_nan] if k_nan != filler else draw(st.integers(cap // 2, cap))) if with_nan else 0
                rest = size - sum(counts) - missing
                if rest < 0:
                    counts = [0] * n_mod
                    missing = 0
                    rest = size
                counts[filler] = rest
                rows.append(counts + [missing])
            return rows

        table = table_u  # noqa: F811 - replaces the weight-based table for this feature

    train = table(blocks)
    spec["train"] = train
    if dev_mode == "none":
        spec["dev"] = None
    elif dev_mode == "same":
        spec["dev"] = [list(r) for r in train]
    elif dev_mode == "perturbed":
        dev = []
        for row, size in zip(train, dev_blocks):
            noise = draw(st.lists(st.sampled_from([0, 0, 1, 2]), min_size=n_mod + 1, max_size=n_mod + 1))
            ws = [c * 4 + (nz if c > 0 else 0) for c, nz in zip(row, noise)]
            dev.append(apportion(ws, size))
        spec["dev"] = dev
    else:  # independent
        spec["dev"] = table(dev_blocks)
    _ = n_levels
    return spec


@st.composite
def sample_case(
    draw,
    target_kinds=("binary", "continuous"),
    feature_kinds=("continuous", "discrete", "ordinal", "categorical"),
    min_features=1,
    max_features=3,
    dev_modes=("none", "none", "same", "perturbed", "independent"),
    quant_pools=None,
    allow_missing=True,
    cat_flavours=None,
    twin_boost=False,
):
    target = draw(target_spec(kinds=target_kinds))
    blocks = target["blocks"]
    dev_mode = draw(st.sampled_from(list(dev_modes)))
    if dev_mode in ("same", "perturbed"):
        dev_blocks = list(blocks)
    elif dev_mode == "independent":
        lo = 6 if target["kind"] != "continuous" else 3
        dev_blocks = [draw(st.integers(lo, 120)) for _ in blocks]
    else:
        dev_blocks = None
    n_feat = draw(st.integers(min_features, max_features))
    features = []
    for i in range(n_feat):
        kind = draw(st.sampled_from(list(feature_kinds)))
        prefix = {"continuous": "q", "discrete": "d", "ordinal": "o", "categorical": "c"}[kind]
        features.append(draw(feature_spec(f"{prefix}{i}", kind, blocks, dev_mode, dev_blocks, quant_pools, allow_missing, cat_flavours, twin_boost)))
    return {
        "target": target,
        "dev_blocks": dev_blocks,
        "features": features,
        "key": draw(st.integers(0, 2**20)),
        "index": draw(st.sampled_from(["range", "range", "offset", "shuffled", "str"])),
    }


def carver_config(draw, target_kind):
    """Carver parameters (drawn inside a composite)."""
    min_freq = draw(st.sampled_from([0.02, 0.05, 0.1, 0.12, 0.15, 0.2, 0.25, 0.3, 0.4, 0.5]))
    # cost bound only: the carver enumerates sum_g C(k-1, g-1) groupings of k <= ~1/min_freq buckets
    max_groups = 3 if min_freq < 0.05 else (4 if min_freq < 0.1 else 7)
    cfg = {
        "min_freq": min_freq,
        "min_freq_mod": draw(st.sampled_from([None, None, 0.02, 0.05, 0.1, 0.2, 0.3, 0.45])),
        "max_n_mod": draw(st.integers(2, max_groups)),
        "dropna": draw(st.booleans()),
        "output_dtype": draw(st.sampled_from(["float", "str"])),
        "copy": draw(st.booleans()),
    }
    if target_kind in ("binary", "multiclass"):
        cfg["sort_by"] = draw(st.sampled_from(["tschuprowt", "cramerv"]))
    else:
        cfg["sort_by"] = "kruskal"
    return cfg


# ----------------------------------------------------------------------------------------- build
@dataclass
class Sample:
    X: pd.DataFrame
    y: pd.Series
    X_dev: Optional[pd.DataFrame]
    y_dev: Optional[pd.Series]
    mods: dict = field(default_factory=dict)  # feature -> modality index per train row (-1 missing)
    mods_dev: dict = field(default_factory=dict)
    specs: dict = field(default_factory=dict)
    level_idx: Any = None  # target level index per train row
    level_idx_dev: Any = None

    def quantitative(self):
        return [f for f, s in self.specs.items() if s["kind"] in ("continuous", "discrete")]

    def categorical(self):
        return [f for f, s in self.specs.items() if s["kind"] == "categorical"]

    def ordinal(self):
        return [f for f, s in self.specs.items() if s["kind"] == "ordinal"]

    def rankings(self):
        return {f: list(s["ranking"]) for f, s in self.specs.items() if s["kind"] == "ordinal"}


def _column(values, idx, kind, dtype=None):
    """Column of raw values for modality indices idx (-1 -> missing)."""
    idx = np.asarray(idx)
    missing = idx < 0
    if kind in ("continuous", "discrete"):
        vals = np.array([float(v) for v in values] + [np.nan])
        col = vals[idx]  # -1 picks the trailing NaN
        if dtype == "int64" and not missing.any() and all(float(v).is_integer() and abs(v) < 2**53 for v in values):
            return col.astype("int64")
        if dtype == "float32":
            return col.astype("float32")
        return col
    if dtype == "native" and all(isinstance(v, (int, float)) and not isinstance(v, bool) for v in values):
        # the column as pandas would read it from a file: int64 without missing values, float64 otherwise
        # (integer codes then become integer-valued floats)
        if not missing.any() and all(isinstance(v, int) for v in values):
            return np.array([values[i] for i in idx], dtype="int64")
        return np.array([np.nan if i < 0 else float(values[i]) for i in idx], dtype="float64")
    out = np.empty(len(idx), dtype=object)
    for n, i in enumerate(idx):
        out[n] = np.nan if i < 0 else values[i]
    return out


def _layout(blocks, tables, key):
    """Row layout: for every level block the modality indices of each feature, independently
    permuted, then one global permutation of all rows."""
    n = sum(blocks)
    level_idx = np.repeat(np.arange(len(blocks)), blocks)
    cols = {}
    for f_n, (name, table) in enumerate(tables.items()):
        parts = []
        for l_n, (size, counts) in enumerate(zip(blocks, table)):
            mods = []
            for m, c in enumerate(counts[:-1]):
                mods += [m] * c
            mods += [-1] * counts[-1]
            assert len(mods) == size, (name, l_n, size, counts)
            random.Random(key * 1000003 + f_n * 101 + l_n).shuffle(mods)
            parts += mods
        cols[name] = np.array(parts, dtype=int)
    perm = list(range(n))
    random.Random(key).shuffle(perm)
    perm = np.array(perm, dtype=int)
    return level_idx[perm], {name: col[perm] for name, col in cols.items()}


def make_index(style: str, n: int, key: int, offset: int = 0):
    if style == "range":
        return pd.RangeIndex(offset, offset + n)
    if style == "offset":
        return pd.Index(np.arange(n) + 1000 + offset)
    if style == "shuffled":
        ids = list(range(offset, offset + n))
        random.Random(key + 17).shuffle(ids)
        return pd.Index(ids)
    if style == "str":
        return pd.Index([f"r{offset + i}" for i in range(n)], dtype=object)
    raise ValueError(style)


def target_series(target, level_idx, index, name="y"):
    levels = target["levels"]
    if target["kind"] == "multiclass" and any(isinstance(v, str) for v in levels):
        vals = np.array(levels, dtype=object)[level_idx]
        return pd.Series(vals, index=index, name=name, dtype=object)
    vals = np.array(levels)[level_idx]
    return pd.Series(vals, index=index, name=name)


def build(case, dtypes=None) -> Sample:
    target = case["target"]
    specs = {f["name"]: f for f in case["features"]}
    dtypes = dtypes or {}
    level_idx, mods = _layout(target["blocks"], {f["name"]: f["train"] for f in case["features"]}, case["key"])
    n = len(level_idx)
    index = make_index(case["index"], n, case["key"])
    X = pd.DataFrame(
        {name: _column(spec["values"], mods[name], spec["kind"], dtypes.get(name, spec.get("dtype"))) for name, spec in specs.items()},
        index=index,
    )
    y = target_series(target, level_idx, index)
    X_dev = y_dev = None
    mods_dev, level_idx_dev = {}, None
    if case.get("dev_blocks"):
        level_idx_dev, mods_dev = _layout(case["dev_blocks"], {f["name"]: f["dev"] for f in case["features"]}, case["key"] + 7)
        n_dev = len(level_idx_dev)
        index_dev = make_index(case["index"], n_dev, case["key"] + 3, offset=n)
        X_dev = pd.DataFrame(
            {name: _column(spec["values"], mods_dev[name], spec["kind"], dtypes.get(name, spec.get("dtype"))) for name, spec in specs.items()},
            index=index_dev,
        )
        y_dev = target_series(target, level_idx_dev, index_dev)
    return Sample(X, y, X_dev, y_dev, mods, mods_dev, specs, level_idx, level_idx_dev)


def feature_lists(case):
    quant = [f["name"] for f in case["features"] if f["kind"] in ("continuous", "discrete")]
    cat = [f["name"] for f in case["features"] if f["kind"] == "categorical"]
    ordi = [f["name"] for f in case["features"] if f["kind"] == "ordinal"]
    rankings = {f["name"]: list(f["ranking"]) for f in case["features"] if f["kind"] == "ordinal"}
    return quant, cat, ordi, rankings


def summarize(case):
    """Short description of a case for evidence samples."""
    return {
        "target": case["target"]["kind"],
        "rows": sum(case["target"]["blocks"]),
        "dev_rows": sum(case["dev_blocks"]) if case.get("dev_blocks") else 0,
        "features": [(f["name"], f["kind"], len(f["values"])) for f in case["features"]],
        "config": case.get("config"),
    }
