"""Frames for the selector properties (C14, C15): clusters of related features built from latent columns.

A case holds integer latent columns (drawn by Hypothesis) and, per feature, a small recipe that derives it
from a latent; `build_frame(case)` materialises X (quantitative + qualitative columns) and y.
"""
import random

import numpy as np
import pandas as pd
from hypothesis import strategies as st

CATS = ["a", "b", "c", "d", "e", "f"]


@st.composite
def selector_case(draw, target_kinds=("binary", "multiclass", "continuous"), planted=False):
    n = draw(st.sampled_from([40, 60, 90, 150, 240]))
    n_lat = draw(st.integers(2, 4))
    latents = [draw(st.lists(st.integers(-12, 12), min_size=n, max_size=n)) for _ in range(n_lat)]
    n_quant = draw(st.integers(3, 8))
    n_qual = draw(st.integers(3, 6))
    quant = []
    for i in range(n_quant):
        kind = draw(st.sampled_from(["latent", "latent", "copy", "neg", "scale", "cube", "noisy", "noisy", "const", "coarse", "spiky", "spiky"]))
        rec = {"name": f"x{i}", "kind": kind, "src": draw(st.integers(0, n_lat - 1)), "noise": draw(st.integers(0, n_lat - 1)),
               "w": draw(st.sampled_from([1, 2, 4, 8])), "nan": draw(st.sampled_from([0, 0, 0, 5, 20, 45])), "nan_key": draw(st.integers(0, 10**6))}
        quant.append(rec)
    qual = []
    for i in range(n_qual):
        kind = draw(st.sampled_from(["bin", "bin", "bin", "merge", "rename", "const", "parity"]))
        rec = {"name": f"c{i}", "kind": kind, "src": draw(st.integers(0, n_lat - 1)), "k": draw(st.integers(2, 5)),
               "nan": draw(st.sampled_from([0, 0, 0, 10, 30])), "nan_key": draw(st.integers(0, 10**6)), "labels_key": draw(st.integers(0, 10**6))}
        qual.append(rec)
    target = {"kind": draw(st.sampled_from(list(target_kinds))), "src": 0, "noise": draw(st.integers(0, n_lat - 1)),
              "w": draw(st.sampled_from([0, 1, 2, 4]))}
    case = {"n": n, "latents": latents, "quant": quant, "qual": qual, "target": target, "key": draw(st.integers(0, 10**6))}
    if planted:
        case["planted"] = draw(st.sampled_from(["copy", "cube", "exp", "affine"]))
    return case


def _bins(values, k):
    """k quantile-ish bins of an integer column (by rank)."""
    order = np.argsort(np.asarray(values), kind="mergesort")
    ranks = np.empty(len(values), dtype=int)
    ranks[order] = np.arange(len(values))
    return (ranks * k // len(values)).astype(int)


def build_frame(case):
    n = case["n"]
    lat = [np.asarray(col, dtype=float) for col in case["latents"]]
    data = {}
    for rec in case["quant"]:
        src, noise = lat[rec["src"]], lat[rec["noise"]]
        kind = rec["kind"]
        if kind in ("latent", "copy"):
            col = src.copy()
        elif kind == "neg":
            col = -src
        elif kind == "scale":
            col = src * rec["w"] + 3
        elif kind == "cube":
            col = src**3
        elif kind == "noisy":
            col = src * rec["w"] + noise
        elif kind == "coarse":
            col = np.floor(src / 4.0)
        elif kind == "spiky":  # a few far-out rows (1-4 % of them): outliers for the z-score / IQR pre-filters
            col = src * rec["w"] + noise
            rng = random.Random(rec["nan_key"] + 1)
            for i in rng.sample(range(n), max(1, n * rec["w"] // 200)):
                col[i] = (abs(col[i]) + 13) * 40 * (1 if i % 2 else -1)
        else:
            col = np.full(n, 7.0)
        if rec["nan"]:
            rng = random.Random(rec["nan_key"])
            idx = rng.sample(range(n), min(n - 3, n * rec["nan"] // 100))
            col = col.copy()
            col[idx] = np.nan
        data[rec["name"]] = col
    for rec in case["qual"]:
        src = lat[rec["src"]]
        kind = rec["kind"]
        labels = list(CATS)
        random.Random(rec["labels_key"]).shuffle(labels)
        if kind in ("bin", "rename"):
            codes = _bins(src, rec["k"])
        elif kind == "merge":
            codes = _bins(src, rec["k"] + 1) // 2
        elif kind == "parity":
            codes = (np.abs(src).astype(int) % 2)
        else:
            codes = np.zeros(n, dtype=int)
        col = np.array([labels[c] for c in codes], dtype=object)
        if rec["nan"]:
            rng = random.Random(rec["nan_key"])
            idx = rng.sample(range(n), min(n - 3, n * rec["nan"] // 100))
            col[idx] = np.nan
        data[rec["name"]] = col
    t = case["target"]
    base = lat[t["src"]] * 4 + lat[t["noise"]] * t["w"]
    if t["kind"] == "binary":
        y = (base > np.median(base)).astype(int)
        if y.min() == y.max():
            y = (np.arange(n) % 2).astype(int)
    elif t["kind"] == "multiclass":
        y = _bins(base, 3)
        if len(set(y.tolist())) < 3:
            y = np.arange(n) % 3
    else:
        y = base + np.arange(n) % 2 * 0.5
    X = pd.DataFrame(data)
    y = pd.Series(y, name="target")
    planted = case.get("planted")
    if planted:
        if t["kind"] == "continuous":
            yy = np.asarray(y, dtype=float)
            col = {"copy": yy, "cube": yy**3, "exp": np.exp(yy / 16.0), "affine": yy * 2 + 5}[planted]
            X["x_planted"] = col
        else:
            labs = [f"k{v}" for v in y.tolist()]
            X["c_planted"] = np.array(labs, dtype=object)
            X["x_planted"] = np.asarray(y, dtype=float) * (3 if planted != "copy" else 1) + (0 if planted == "copy" else 2)
    return X, y


def feature_names(case, X):
    quant = [c for c in X.columns if c.startswith("x")]
    qual = [c for c in X.columns if c.startswith("c")]
    return quant, qual
