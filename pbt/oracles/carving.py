"""Brute-force reference for the carvers' search (C01, reused by C02/C16).

Everything here is computed from per-base-bucket aggregates of the *raw* sample:
  binary target      : (n0, n1) integer counts per bucket
  continuous target  : integer-scaled sum of y, count, and rank sum per bucket
Candidates are compositions of the k non-missing buckets into consecutive groups, described by
their cut points.  Viability is three-valued: True / False / None (= ambiguous: the verdict depends
on float tolerance or on tie-breaking that the property does not fix).
"""
import itertools
import math
from fractions import Fraction

import numpy as np

RTOL, ATOL = 1e-5, 1e-8
REL = 1e-9


def dec(x) -> Fraction:
    return Fraction(repr(x))


def compositions(k: int, max_groups: int, min_groups: int = 2):
    """All splits of range(k) into g consecutive non-empty groups, min_groups <= g <= max_groups.
    Yields tuples of cut points c_1 < ... < c_{g-1} (group j = buckets [c_j, c_{j+1}))."""
    for g in range(min_groups, min(max_groups, k) + 1):
        for cuts in itertools.combinations(range(1, k), g - 1):
            yield cuts


def groups_of(cuts, k):
    bounds = (0,) + tuple(cuts) + (k,)
    return [list(range(a, b)) for a, b in zip(bounds, bounds[1:])]


# ---------------------------------------------------------------------------------------- aggregates
class Aggregate:
    """Per-bucket aggregates of one sample (train or dev) for one feature.
    buckets 0..k-1 are the non-missing base modalities in order; index k is the missing bucket."""

    def __init__(self, kind, k, bucket_idx, y_values, scale=None):
        self.kind = kind
        self.k = k
        idx = np.asarray(bucket_idx, dtype=int)  # -1 for missing
        idx = np.where(idx < 0, k, idx)
        self.n = np.bincount(idx, minlength=k + 1).astype(np.int64)
        if kind == "binary":
            y = np.asarray(y_values, dtype=np.int64)
            self.s = np.bincount(idx, weights=y, minlength=k + 1).astype(np.int64)  # number of 1s
            self.scale = 1
        else:
            fr = [Fraction(v) for v in y_values]
            scale = scale or 1
            for f in fr:
                scale = scale * f.denominator // math.gcd(scale, f.denominator)
            self.scale = scale
            yi = np.array([int(f * scale) for f in fr], dtype=np.int64)
            self.s = np.zeros(k + 1, dtype=np.int64)
            np.add.at(self.s, idx, yi)
            self.y_int = yi
            self.idx = idx

    def rank_sums(self, rows_mask):
        """Average ranks of y among the rows of the stage; returns per-bucket rank sums + tie term."""
        y = self.y_int[rows_mask]
        idx = self.idx[rows_mask]
        order = np.argsort(y, kind="mergesort")
        ranks = np.empty(len(y), dtype=float)
        ys = y[order]
        n = len(y)
        i = 0
        ties = 0.0
        while i < n:
            j = i
            while j + 1 < n and ys[j + 1] == ys[i]:
                j += 1
            avg = (i + j) / 2.0 + 1.0
            ranks[order[i : j + 1]] = avg
            t = j - i + 1
            ties += t**3 - t
            i = j + 1
        rs = np.zeros(self.k + 1, dtype=float)
        np.add.at(rs, idx, ranks)
        return rs, ties, n


def close(a_num, a_den, b_num, b_den):
    """Three-valued 'target rates are close' for rates a_num/a_den and b_num/b_den.
    Returns True (surely equal), False (surely distinct), None (ambiguous)."""
    if a_den == 0 or b_den == 0:
        return None
    if a_num * b_den == b_num * a_den:
        return True
    a, b = a_num / a_den, b_num / b_den
    tol = ATOL + RTOL * max(abs(a), abs(b))
    if abs(a - b) > 2 * tol:
        return False
    return None


def and3(*vals):
    if any(v is False for v in vals):
        return False
    if any(v is None for v in vals):
        return None
    return True


# ---------------------------------------------------------------------------------------- measures
def chi2_stat(table):
    """Pearson chi2 of an r x 2 table of counts, with Yates' correction when it is 2 x 2
    (scipy.stats.chi2_contingency default). A table with an empty row or column has no association."""
    obs = np.asarray(table, dtype=float)
    row = obs.sum(axis=1)
    col = obs.sum(axis=0)
    n = obs.sum()
    if n == 0 or (row == 0).any() or (col == 0).any():
        return 0.0
    exp = np.outer(row, col) / n
    if obs.shape == (2, 2):
        diff = exp - obs
        direction = np.sign(diff)
        magnitude = np.minimum(0.5, np.abs(diff))
        obs = obs + magnitude * direction
    return float(((obs - exp) ** 2 / exp).sum())


def binary_measures(n0, n1, n_obs):
    chi2 = chi2_stat(np.column_stack([n0, n1]))
    g = len(n0)
    v = math.sqrt(chi2 / n_obs) if n_obs else 0.0
    t = v / math.sqrt(math.sqrt(g - 1)) if g > 1 else float("nan")
    return {"cramerv": v, "tschuprowt": t}


def kruskal_h(rank_sums, counts, ties, n):
    """Kruskal-Wallis H with tie correction (as scipy.stats.kruskal)."""
    if n < 2:
        return float("nan")
    denom = 1.0 - ties / (n**3 - n) if n > 1 else 0.0
    if denom == 0:
        return float("nan")  # all values identical
    h = 12.0 / (n * (n + 1)) * float(np.sum(np.asarray(rank_sums) ** 2 / np.asarray(counts))) - 3.0 * (n + 1)
    return h / denom


# ---------------------------------------------------------------------------------------- the search
class Search:
    """Reference search for one feature."""

    def __init__(self, kind, sort_by, k, train: Aggregate, dev, min_freq_mod, max_n_mod):
        self.kind, self.sort_by, self.k = kind, sort_by, k
        self.train, self.dev = train, dev
        self.mfm = dec(min_freq_mod)
        self.max_n_mod = max_n_mod

    # -- generic evaluation of a grouping given as list of lists of bucket indices (k = missing)
    def evaluate(self, groups, with_nan_rows: bool, nan_alone_last: bool = False):
        tr = self.train
        n_g = np.array([int(tr.n[g].sum()) for g in groups], dtype=np.int64)
        s_g = np.array([int(tr.s[g].sum()) for g in groups], dtype=np.int64)
        n_obs = int(n_g.sum())
        if (n_g == 0).any():
            measure = float("nan")
        elif self.kind == "binary":
            measure = binary_measures(n_g - s_g, s_g, n_obs)[self.sort_by]
        else:
            mask = np.ones(len(tr.idx), dtype=bool) if with_nan_rows else (tr.idx < self.k)
            rs, ties, n = tr.rank_sums(mask)
            r_g = np.array([rs[g].sum() for g in groups])
            measure = kruskal_h(r_g, n_g, ties, n)
        viable_train = self._viable(n_g, s_g, nan_alone_last)
        viable = viable_train
        dev_detail = None
        if self.dev is not None:
            dv = self.dev
            dn = np.array([int(dv.n[g].sum()) for g in groups], dtype=np.int64)
            ds = np.array([int(dv.s[g].sum()) for g in groups], dtype=np.int64)
            viable_dev = self._viable(dn, ds, nan_alone_last)
            ranks = self._same_ranking(n_g, s_g, tr.scale, dn, ds, dv.scale)
            dev_detail = (viable_dev, ranks)
            viable = and3(viable_train, viable_dev, ranks)
        return {"measure": measure, "viable": viable, "viable_train": viable_train, "dev": dev_detail, "n": n_g.tolist(), "s": s_g.tolist()}

    def _viable(self, n_g, s_g, nan_alone_last):
        total = int(n_g.sum())
        if total == 0:
            return False
        freq_ok = all(Fraction(int(n), total) >= self.mfm for n in n_g)
        if not freq_ok:
            return False
        verdicts = []
        last = len(n_g) - 1
        for i in range(last):
            c = close(int(s_g[i]), int(n_g[i]), int(s_g[i + 1]), int(n_g[i + 1]))
            if nan_alone_last and i + 1 == last:
                # a missing-values-only group has no position in the feature's order: the statement does
                # not make it adjacent to anything, the implementation compares it with its neighbour
                verdicts.append(True if c is False else None)
            else:
                verdicts.append(True if c is False else (False if c is True else None))
        return and3(True, *verdicts)

    @staticmethod
    def _same_ranking(n_a, s_a, scale_a, n_b, s_b, scale_b):
        """Groups ranked identically by target rate on train (a) and dev (b)."""
        m = len(n_a)
        if (n_a == 0).any() or (n_b == 0).any():
            return False
        tie = False
        for i in range(m):
            for j in range(i + 1, m):
                ca = int(s_a[i]) * int(n_a[j]) - int(s_a[j]) * int(n_a[i])  # sign of rate_i - rate_j on a
                cb = int(s_b[i]) * int(n_b[j]) - int(s_b[j]) * int(n_b[i])
                if ca == 0 or cb == 0:
                    tie = True
                    continue
                if (ca > 0) != (cb > 0):
                    return False
        return None if tie else True

    # -- stage 1: groupings of the non-missing buckets
    def stage1(self):
        cands = []
        for cuts in compositions(self.k, self.max_n_mod):
            res = self.evaluate(groups_of(cuts, self.k), with_nan_rows=False)
            res["cuts"] = cuts
            cands.append(res)
        return cands

    # -- stage 2: regroupings of the groups of `cuts` with the missing bucket placed
    def stage2(self, cuts):
        base_groups = groups_of(cuts, self.k)
        s = len(base_groups)
        cands = []
        for cuts2 in compositions(s, self.max_n_mod):
            merged = [sum((base_groups[i] for i in grp), []) for grp in groups_of(cuts2, s)]
            r = len(merged)
            for j in range(r):
                groups = [list(g) for g in merged]
                groups[j] = groups[j] + [self.k]
                res = self.evaluate(groups, with_nan_rows=True)
                res.update({"groups": merged, "nan": j})
                cands.append(res)
            if r < self.max_n_mod:
                groups = [list(g) for g in merged] + [[self.k]]
                res = self.evaluate(groups, with_nan_rows=True, nan_alone_last=True)
                res.update({"groups": merged, "nan": "alone"})
                cands.append(res)
        return cands


def admissible(cands):
    """Candidates the implementation may legitimately return: not surely non-viable and with a measure
    reaching the best surely-viable one (all ambiguous ones when nothing is surely viable).
    Returns (list, best surely-viable measure or None)."""
    finite = [c for c in cands if not math.isnan(c["measure"])]
    sure = [c["measure"] for c in finite if c["viable"] is True]
    if sure:
        best = max(sure)
        thr = best - abs(best) * REL - 1e-12
        return [c for c in finite if c["viable"] is not False and c["measure"] >= thr], best
    return [c for c in finite if c["viable"] is None], None


def partition_key(groups):
    return tuple(tuple(g) for g in groups)
