"""Plain reference model of GroupedList: an ordered mapping leader -> list of members.

Written from the docstrings of AutoCarver.discretizers.utils.grouped_list and from how the package
calls it; deliberately does not import it.
"""
import math


def is_nan(value) -> bool:
    return isinstance(value, float) and math.isnan(value)


def same(a, b) -> bool:
    """Equality of two stored values: python equality between values of the same family
    (str vs number never equal), NaN equal to NaN."""
    if is_nan(a) and is_nan(b):
        return True
    if isinstance(a, str) != isinstance(b, str):
        return False
    return a == b


def key_of(value):
    """Hashable canonical key of a value (0 == 0.0 share a key; '0' is different)."""
    if isinstance(value, str):
        return ("s", str(value))
    if is_nan(value):
        return ("nan",)
    return ("n", float(value))


class Model:
    def __init__(self, groups=None):
        # list of [leader, [members...]]
        self.groups = [[leader, list(members)] for leader, members in (groups or [])]

    # ------------------------------------------------------------------ construction
    @classmethod
    def from_list(cls, items):
        return cls([(item, [item]) for item in items])

    @classmethod
    def from_dict(cls, pairs):
        """pairs: ordered (key, members). A key listed inside another key's members has been
        grouped already (its own list is empty) and is not a leader; a leader missing from its own
        members is added to them."""
        groups = []
        for key, members in pairs:
            elsewhere = any(
                same(key, m) for other, ms in pairs if not same(other, key) for m in ms
            )
            if elsewhere:
                continue
            members = list(members)
            if not any(same(key, m) for m in members):
                members = members + [key]
            groups.append((key, members))
        return cls(groups)

    def copy(self):
        return Model(self.groups)

    # ------------------------------------------------------------------ queries
    def leaders(self):
        return [leader for leader, _ in self.groups]

    def is_leader(self, value) -> bool:
        return any(same(value, leader) for leader, _ in self.groups)

    def members(self, leader):
        for lead, members in self.groups:
            if same(lead, leader):
                return list(members)
        return None

    def values(self):
        return [m for _, members in self.groups for m in members]

    def contains(self, value) -> bool:
        return any(same(value, m) for m in self.values())

    def get_group(self, value):
        for leader, members in self.groups:
            if any(same(value, m) for m in members):
                return leader
        return value

    def _index(self, leader) -> int:
        for n, (lead, _) in enumerate(self.groups):
            if same(lead, leader):
                return n
        raise KeyError(leader)

    # ------------------------------------------------------------------ operations
    def group(self, discarded, kept):
        if same(discarded, kept):
            return
        d_idx = self._index(discarded)
        k_idx = self._index(kept)
        self.groups[k_idx][1] = self.groups[d_idx][1] + self.groups[k_idx][1]
        del self.groups[d_idx]

    def group_list(self, to_discard, kept):
        for discarded in to_discard:
            self.group(discarded, kept)

    def append(self, value):
        self.groups.append([value, [value]])

    def update(self, pairs):
        for key, members in pairs:
            if self.is_leader(key):
                self.groups[self._index(key)][1] = list(members)
            else:
                self.groups.append([key, list(members)])

    def remove(self, leader):
        del self.groups[self._index(leader)]

    def pop(self, idx):
        del self.groups[idx]

    def sorted(self):
        strs = sorted(leader for leader, _ in self.groups if isinstance(leader, str))
        nums = sorted(leader for leader, _ in self.groups if not isinstance(leader, str))
        return self.sorted_by(strs + nums)

    def sorted_by(self, ordering):
        return Model([(leader, self.members(leader)) for leader in ordering])

    def replace_group_leader(self, leader, member):
        idx = self._index(leader)
        self.groups[idx][0] = member

    def state_key(self):
        return tuple(
            (key_of(leader), tuple(sorted(key_of(m) for m in members)))
            for leader, members in self.groups
        )
