"""Reference mapping value -> group computed from a fitted `values_orders` entry only.

Reads the plain data of the GroupedList (the list and its `content` dict); never calls its look-up
methods or `labels_per_values`.
"""
import math

import numpy as np
import pandas as pd


def is_missing(value) -> bool:
    if value is None:
        return True
    try:
        return bool(isinstance(value, (float, np.floating)) and math.isnan(value))
    except TypeError:
        return False


def is_num(value) -> bool:
    return isinstance(value, (int, float, np.integer, np.floating)) and not isinstance(value, bool)


def eq(a, b) -> bool:
    """Equality of raw values: strings only equal strings, numbers compare by value."""
    if isinstance(a, str) or isinstance(b, str):
        return isinstance(a, str) and isinstance(b, str) and str(a) == str(b)
    if is_missing(a) or is_missing(b):
        return is_missing(a) and is_missing(b)
    return a == b


def leaders(order):
    return list(order)


def content_of(order, leader):
    for key, members in order.content.items():
        if eq(key, leader) and type(key) is type(leader) or key is leader:
            return list(members)
    for key, members in order.content.items():
        if eq(key, leader):
            return list(members)
    return []


def groups_containing(order, value):
    """All leaders (in list order) whose content holds value."""
    found = []
    for leader in order:
        if any(eq(value, m) for m in content_of(order, leader)):
            found.append(leader)
    return found


def ref_group(order, value, quantitative: bool, str_nan: str):
    """Returns (position, leader) of the group `value` belongs to according to `order`,
    or (None, None) when it belongs to no group. position = index in the fitted list."""
    lead = leaders(order)
    if is_missing(value):
        found = groups_containing(order, str_nan)
        if not found:
            return None, None
        leader = found[0]
        return _position(lead, leader), leader
    if quantitative:
        for pos, leader in enumerate(lead):
            if isinstance(leader, str):
                continue  # the missing-value sentinel
            if value <= leader:
                return pos, leader
        return None, None
    found = groups_containing(order, value)
    if not found:
        return None, None
    return _position(lead, found[0]), found[0]


def _position(lead, leader):
    for pos, item in enumerate(lead):
        if eq(item, leader):
            return pos
    return None


def known_values(order):
    return [m for leader in order for m in content_of(order, leader)]


def factorize(values):
    """First-occurrence factorisation of a label column (NaN is a label of its own)."""
    codes, seen = [], {}
    for v in values:
        key = ("nan",) if is_missing(v) else (("s", v) if isinstance(v, str) else ("n", float(v)))
        if key not in seen:
            seen[key] = len(seen)
        codes.append(seen[key])
    return codes


def same_partition(a, b) -> bool:
    return factorize(list(a)) == factorize(list(b))


def values_equal(a, b) -> bool:
    if is_missing(a) and is_missing(b):
        return True
    if is_missing(a) or is_missing(b):
        return False
    if isinstance(a, str) or isinstance(b, str):
        return isinstance(a, str) and isinstance(b, str) and a == b
    return float(a) == float(b)


def columns_equal(a, b) -> bool:
    a, b = list(a), list(b)
    return len(a) == len(b) and all(values_equal(x, y) for x, y in zip(a, b))


def frames_equal(a: pd.DataFrame, b: pd.DataFrame, columns=None):
    """NaN-aware, value based comparison. Returns None when equal, else a description."""
    if list(a.index) != list(b.index):
        return "index differs"
    cols_a, cols_b = list(a.columns), list(b.columns)
    if columns is None:
        if cols_a != cols_b:
            return f"columns differ: {cols_a} vs {cols_b}"
        columns = cols_a
    for col in columns:
        if col not in a or col not in b:
            return f"column {col} missing"
        if not columns_equal(a[col].tolist(), b[col].tolist()):
            for n, (x, y) in enumerate(zip(a[col].tolist(), b[col].tolist())):
                if not values_equal(x, y):
                    return f"column {col!r} row {n} (index {a.index[n]!r}): {x!r} != {y!r}"
            return f"column {col!r} lengths differ"
    return None


def snapshot(df):
    """Deep, comparison-friendly snapshot of a frame or series (values, dtypes, index, columns)."""
    if df is None:
        return None
    if isinstance(df, pd.Series):
        return ("series", list(df.index), str(df.dtype), df.name, [_freeze(v) for v in df.tolist()])
    return (
        "frame",
        list(df.index),
        list(df.columns),
        [str(t) for t in df.dtypes],
        {c: [_freeze(v) for v in df[c].tolist()] for c in df.columns},
    )


def _freeze(v):
    if is_missing(v):
        return ("nan",)
    return (type(v).__name__, v)


def group_counts(order, raw_values, quantitative: bool, str_nan: str = "__NAN__"):
    """Number of rows per group position (None = rows belonging to no group)."""
    counts = {}
    for v in raw_values:
        pos, _ = ref_group(order, v, quantitative, str_nan)
        counts[pos] = counts.get(pos, 0) + 1
    return counts
