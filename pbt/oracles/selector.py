"""Independent recomputation of the selectors' measures and inter-feature associations, and the validity
predicate of C14 (several outputs are legal under ties, so no single expected list is computed)."""
import math

import numpy as np
import pandas as pd
from scipy import stats

from oracles.carving import chi2_stat

TOL = 1e-9


def outlier_ok(x: pd.Series, kind: str, thresh: float) -> bool:
    """Reference of the optional outlier pre-filters: share of rows with |z| > 3 (sample standard deviation), or of
    rows outside [q1 - 1.5 iqr, q3 + 1.5 iqr] (missing values count as outside), must stay below the threshold."""
    v = np.asarray(x, dtype=float)
    ok = ~np.isnan(v)
    n = len(v)
    if kind == "zscore":
        vals = v[ok]
        if len(vals) < 2:
            return True
        mean = vals.sum() / len(vals)
        std = math.sqrt(((vals - mean) ** 2).sum() / (len(vals) - 1))
        if std == 0:
            return True
        far = int((np.abs((vals - mean) / std) > 3).sum())
        return far / n < thresh
    if kind == "iqr":
        vals = np.sort(v[ok])
        if len(vals) == 0:
            return not (1.0 < thresh)
        q1, q3 = np.quantile(vals, 0.25), np.quantile(vals, 0.75)
        lo, hi = q1 - 1.5 * (q3 - q1), q3 + 1.5 * (q3 - q1)
        inside = int(((vals >= lo) & (vals <= hi)).sum())
        return (n - inside) / n < thresh
    return True


def prefilter_ok(x: pd.Series, thresh_nan=0.999, thresh_mode=0.999):
    pct_nan = float(x.isna().mean())
    if not pct_nan < thresh_nan:
        return False
    nn = x.dropna()
    if len(nn) == 0:
        return False
    counts = nn.value_counts()
    pct_mode = float(counts.iloc[0]) / len(x)
    return pct_mode < thresh_mode


def table(a: pd.Series, b: pd.Series):
    ok = a.notna() & b.notna()
    a, b = a[ok], b[ok]
    ra = {v: i for i, v in enumerate(sorted(set(a.tolist()), key=repr))}
    rb = {v: i for i, v in enumerate(sorted(set(b.tolist()), key=repr))}
    tab = np.zeros((len(ra), len(rb)))
    for u, v in zip(a.tolist(), b.tolist()):
        tab[ra[u], rb[v]] += 1
    return tab


def cramer_tschuprow(x: pd.Series, y: pd.Series):
    tab = table(x, y)
    if tab.size == 0 or tab.shape[0] < 1 or tab.shape[1] < 1:
        return float("nan"), float("nan")
    chi2 = chi2_stat(tab) if min(tab.shape) >= 1 else float("nan")
    n_obs = int((x.notna() & y.notna()).sum())
    nx, ny = x.nunique(), y.nunique()
    v = math.sqrt(chi2 / n_obs / (min(nx, ny) - 1)) if min(nx, ny) > 1 and n_obs else float("nan")
    dof = math.sqrt((nx - 1) * (ny - 1))
    t = math.sqrt(chi2 / n_obs / dof) if dof > 0 and n_obs else 0.0
    return v, t


def kruskal_by(values: pd.Series, groups: pd.Series):
    """Kruskal-Wallis H of `values` split by the classes of `groups` (missing values removed)."""
    ok = values.notna()
    vals, grp = values[ok], groups[ok]
    samples = [vals[grp == g].astype(float).values for g in pd.unique(groups)]
    if len(samples) < 2 or any(len(s) == 0 for s in samples):
        return float("nan")  # scipy gives NaN for an empty sample
    try:
        return float(stats.kruskal(*samples)[0])
    except ValueError:
        return float("nan")


def eta(values: pd.Series, groups: pd.Series):
    """sqrt(R^2) of the one-way ANOVA of values by groups."""
    ok = values.notna()
    vals, grp = values[ok].astype(float), groups[ok]
    mean = vals.mean()
    sst = float(((vals - mean) ** 2).sum())
    if sst == 0:
        return float("nan")
    ssb = sum(len(v) * (v.mean() - mean) ** 2 for _, v in vals.groupby(grp))
    r2 = ssb / sst
    return math.sqrt(r2) if r2 > 0 else float("nan")


def one_minus_r(x: pd.Series, y: pd.Series):
    ok = x.notna()
    a, b = x[ok].astype(float).values, y[ok].astype(float).values
    if len(a) < 2 or a.std() == 0 or b.std() == 0:
        return float("nan")
    return float(1.0 - np.corrcoef(a, b)[0, 1])


def abs_corr(a: pd.Series, b: pd.Series, method: str):
    ok = a.notna() & b.notna()
    u, v = a[ok].astype(float).values, b[ok].astype(float).values
    if len(u) < 2 or np.all(u == u[0]) or np.all(v == v[0]):
        return float("nan")
    if method == "spearman":
        return abs(float(stats.spearmanr(u, v)[0]))
    return abs(float(np.corrcoef(u, v)[0, 1]))


def close(a, b, rel=1e-9):
    """Equal up to rounding; infinite statistics (Kruskal-Wallis of a constant feature) compare exactly."""
    if a == b:
        return True
    if math.isinf(a) or math.isinf(b) or math.isnan(a) or math.isnan(b):
        return False
    return abs(a - b) <= rel * max(1.0, abs(a), abs(b))


def ge_close(a, b):
    return a >= b or close(a, b)


def validity(returned, features, measure, assoc, n_best, thresh_corr, out, tag):
    """C14's validity predicate for the features of one type.
    measure: feature -> recomputed measure (nan = undefined); assoc(f, g) -> association or nan."""
    if len(set(returned)) != len(returned):
        out.violate(f"{tag}:duplicate-features-returned", f"{returned}")
        return
    foreign = [f for f in returned if f not in features]
    if foreign:
        out.violate(f"{tag}:foreign-features-returned", f"{foreign}")
        return
    if len(returned) > n_best:
        out.violate(f"{tag}:more-than-n_best-returned", f"{len(returned)} features for n_best={n_best}: {returned}")
    undefined = [f for f in returned if math.isnan(measure[f])]
    if undefined:
        out.violate(f"{tag}:feature-with-undefined-measure-returned", f"{undefined}")
        return

    def tol(a, b):
        if math.isinf(a) or math.isinf(b):
            return 0.0  # infinite statistics (Kruskal-Wallis of a constant feature with missing values) compare exactly
        return TOL * max(1.0, abs(a), abs(b))

    for a, b in zip(returned, returned[1:]):
        if measure[b] > measure[a] + tol(measure[a], measure[b]):
            out.violate(f"{tag}:not-ordered-by-decreasing-association", f"{a} ({measure[a]:.9g}) before {b} ({measure[b]:.9g}); returned {returned}")
            break
    for i, a in enumerate(returned):
        for b in returned[i + 1 :]:
            c = assoc(a, b)
            if not math.isnan(c) and c > thresh_corr + TOL:
                out.violate(f"{tag}:returned-features-associated-above-thresh_corr", f"{a} and {b}: association {c:.9g} > thresh_corr {thresh_corr}")
                return
    for f in features:
        if f in returned or math.isnan(measure[f]):
            continue
        better = [g for g in returned if measure[g] >= measure[f] - tol(measure[g], measure[f])]
        if len(better) >= n_best:
            continue
        correlated = False
        for g in better:
            c = assoc(f, g)
            if not math.isnan(c) and c > thresh_corr - TOL:
                correlated = True
                break
        if correlated:
            continue
        out.violate(
            f"{tag}:feature-omitted-without-reason",
            f"{f} (measure {measure[f]:.9g}) is omitted although only {len(better)} better features were returned (n_best={n_best}) and none "
            f"of them is associated with it above {thresh_corr}: {[(g, round(assoc(f, g), 6)) for g in better]}; returned {returned}",
        )
        return
