"""Relating an object's (possibly class-suffixed) feature names to the raw columns of a case."""


def canonical_str(value) -> str:
    """String form under which the package stores a numeric category (2.0 -> '2', 3.5 -> '3.5')."""
    if isinstance(value, float) and value.is_integer():
        return str(int(value))
    return str(value)


def raw_feature(case, feature):
    """(raw column name, class label or None) of an object's feature name."""
    specs = {f["name"]: f for f in case["features"]}
    if feature in specs:
        return feature, None
    if case["target"]["kind"] == "multiclass":
        for level in case["target"]["levels"]:
            suffix = f"_{level}"
            if feature.endswith(suffix) and feature[: -len(suffix)] in specs:
                return feature[: -len(suffix)], level
    return None, None


def feature_views(obj, case):
    """Yields (feature name in obj, raw column, spec) for every feature the object kept,
    in a deterministic order."""
    specs = {f["name"]: f for f in case["features"]}
    for feature in sorted(obj.features):
        raw, _ = raw_feature(case, feature)
        if raw is None:
            continue
        yield feature, raw, specs[raw]
