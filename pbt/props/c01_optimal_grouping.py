"""C01 — carvers pick the most target-associated viable ordered grouping."""
import math

from hypothesis import strategies as st

from core.outcome import Outcome, discard, observe
from gen.objects import fit_base_discretizer, fit_object, fitted_case, make_object
from gen.samples import build
from oracles.carving import Aggregate, Search, admissible, groups_of, partition_key
from oracles.mapping import is_missing, ref_group, values_equal

PID = "C01"
RULE = (
    "Table-first samples (tie-prone integer weights; 1-3 features of every kind; with/without missing values; "
    "dev = none / identical / perturbed / independent) x BinaryCarver (tschuprowt, cramerv) / ContinuousCarver x "
    "min_freq, min_freq_mod, max_n_mod, dropna, output_dtype. Oracle: independent exhaustive re-enumeration. Base "
    "modalities come from a separately fitted Discretizer (bucket of each row through the reference mapping); "
    "the fitted grouping is recovered by crossing base buckets with carver.transform(X_train); every split of the "
    "k non-missing buckets into 2..max_n_mod consecutive groups is scored with own code (chi2 with Yates on 2x2, "
    "V, T; Kruskal-Wallis H with tie correction) and given a three-valued viability (exact frequencies, "
    "numpy.isclose-tolerant rate distinctness, dev frequency / distinctness / rank agreement); then the missing "
    "value placements of every admissible stage-1 result. A kept feature must be an admissible optimum, a "
    "dropped one must have a search without surely-viable candidate. Plus a structured family of 144 exact-tie "
    "samples (U / zig-zag rate profiles, missing values tying with a group, namings whose alphabetical order "
    "differs from the ranking) enumerated completely on every run. Non-trivial: k >= 3 and >= 2 surely-viable "
    "candidates with different measures."
)
BOUNDS = {"rows": "12-400", "base_buckets": "<=~25 (max_n_mod limited to 3/4 for min_freq .02/.05: cost)", "max_n_mod": "2-7"}
ASSUMPTIONS = [
    "the search space is defined by the base modalities of an identically configured Discretizer (decided separately by C03/C04/C09)",
    "a candidate whose viability depends on float tolerance, on tie-breaking among equal rates, or on the position of a missing-values-only group is 'ambiguous': the implementation may treat it either way",
    "measures are compared with relative tolerance 1e-9",
]
BUDGET = {"quick": 1400, "thorough": 60000}
DEADLINE_S = {"quick": 240, "thorough": 3300}
STR_NAN = "__NAN__"


def strategy(tier):
    return fitted_case(("BinaryCarver", "ContinuousCarver"), twin_boost=True)


def bucket_indices(order, raws, quantitative):
    """Index (among non-missing leaders) of every row's base bucket; -1 for missing; None if uncovered."""
    leaders = list(order)
    non_nan = [i for i, l in enumerate(leaders) if not (isinstance(l, str) and l == STR_NAN)]
    pos_to_k = {p: i for i, p in enumerate(non_nan)}
    out = []
    for v in raws:
        if is_missing(v):
            out.append(-1)
            continue
        pos, _ = ref_group(order, v, quantitative, STR_NAN)
        if pos is None or pos not in pos_to_k:
            return None, len(non_nan)
        out.append(pos_to_k[pos])
    return out, len(non_nan)


def fitted_partition(buckets, labels, k, dropna):
    """Groups of base buckets induced by the transform output.
    Returns (groups on non-missing buckets in order, nan placement: index | 'alone' | None, error)."""
    label_of = {}
    for b, lab in zip(buckets, labels):
        key = ("nan",) if is_missing(lab) else (lab if isinstance(lab, str) else float(lab))
        if b in label_of and label_of[b] != key:
            return None, None, f"base bucket {b} receives labels {label_of[b]!r} and {key!r}"
        label_of[b] = key
    groups, seen = [], {}
    for b in range(k):
        if b not in label_of:
            return None, None, f"base bucket {b} has no training row"
        key = label_of[b]
        if key == ("nan",):
            return None, None, f"non-missing base bucket {b} is transformed to a missing value"
        if key in seen:
            if seen[key] != len(groups) - 1:
                return None, None, f"label {key!r} is used by non-consecutive base buckets"
            groups[-1].append(b)
        else:
            seen[key] = len(groups)
            groups.append([b])
    nan_place = None
    if -1 in label_of:
        key = label_of[-1]
        if key == ("nan",):
            nan_place = None if not dropna else "kept-missing"
        elif key in seen:
            nan_place = seen[key]
        else:
            nan_place = "alone"
    return groups, nan_place, None


def check_feature(out, case, sample, carver, kept, feat, spec, base, tr_out):
    cfg = case["config"]
    kind = case["target"]["kind"]
    quantitative = spec["kind"] in ("continuous", "discrete")
    if feat not in base.features:
        out.label("dropped-by-base-discretizer")
        if kept:
            out.violate("kept-though-base-discretizer-drops-it", f"{feat}: the Discretizer drops it but the carver keeps it")
        return
    order = base.values_orders[feat]
    buckets, k = bucket_indices(order, sample.X[feat].tolist(), quantitative)
    if buckets is None:
        out.label("base-mapping-incomplete")
        return
    has_nan = any(b < 0 for b in buckets)
    y = sample.y.tolist()
    train = Aggregate(kind, k, buckets, y)
    if (train.n[:k] == 0).any():
        out.label("empty-base-bucket")
        return
    dev = None
    if sample.X_dev is not None:
        dbuckets, _ = bucket_indices(order, sample.X_dev[feat].tolist(), quantitative)
        if dbuckets is None:
            out.label("dev-value-outside-base-modalities")
            return
        dev = Aggregate(kind, k, dbuckets, sample.y_dev.tolist(), scale=train.scale)
        if kind == "continuous" and dev.scale != train.scale:
            train = Aggregate(kind, k, buckets, y, scale=dev.scale)
    min_freq_mod = cfg["min_freq_mod"] if cfg["min_freq_mod"] is not None else cfg["min_freq"] / 2
    from fractions import Fraction

    search = Search(kind, cfg["sort_by"], k, train, dev, min_freq_mod, cfg["max_n_mod"])
    if cfg["min_freq_mod"] is None:
        search.mfm = Fraction(repr(cfg["min_freq"])) / 2
    stage2_needed = cfg["dropna"] and has_nan

    if k < 2:
        out.label("fewer-than-2-buckets")
        if kept:
            out.violate("kept-with-fewer-than-2-base-buckets", f"{feat}: {k} non-missing base bucket(s) but the feature is kept")
        return
    c1 = search.stage1()
    s1, best1 = admissible(c1)
    sure = sorted({round(c["measure"], 12) for c in c1 if c["viable"] is True})
    if k >= 3 and len(sure) >= 2:
        out.nontrivial = True
    if best1 is not None and sum(1 for c in c1 if c["viable"] is not False and abs(c["measure"] - best1) <= abs(best1) * 1e-9) > 1:
        out.label("tie-of-top-measure")
    if any(c["viable"] is None for c in c1):
        out.label("ambiguous-candidate")
    if any(c["viable_train"] is True and c["viable"] is False for c in c1):
        out.label("dev-rejects-a-train-viable-candidate")
    if cfg["max_n_mod"] >= k:
        out.label("max_n_mod>=k")
    if stage2_needed:
        out.label("stage2")

    if not kept:
        out.label("feature-dropped")
        if best1 is None:
            out.label("drop-legit:no-stage1-candidate")
            return
        if not stage2_needed:
            out.violate(
                "dropped-though-viable-grouping-exists:stage1",
                f"{feat}: dropped, but e.g. cuts {max((c for c in c1 if c['viable'] is True), key=lambda c: c['measure'])['cuts']} of {k} buckets is viable "
                f"with {cfg['sort_by']}={best1:.6f} (counts n={train.n.tolist()} s={train.s.tolist()})",
            )
            return
        for g in s1:
            s2, best2 = admissible(search.stage2(g["cuts"]))
            if best2 is None:
                out.label("drop-legit:no-stage2-candidate")
                return
        out.violate(
            "dropped-though-viable-grouping-exists:stage2",
            f"{feat}: dropped, but every admissible stage-1 grouping has a surely viable missing-value placement (n={train.n.tolist()} s={train.s.tolist()})",
        )
        return

    # ---- kept feature: recover the fitted grouping from transform
    labels = tr_out[feat].tolist()
    groups, nan_place, err = fitted_partition(buckets, labels, k, cfg["dropna"])
    if err:
        out.violate("fitted-grouping-is-not-a-grouping-of-base-modalities", f"{feat}: {err}")
        return
    n_groups = len(groups) + (1 if nan_place == "alone" else 0)
    if nan_place == "kept-missing":
        out.violate("missing-values-not-grouped-with-dropna", f"{feat}: dropna=True but missing values stay missing")
        return
    if len(groups) < 2 or n_groups > cfg["max_n_mod"]:
        out.violate("number-of-groups-out-of-range", f"{feat}: {len(groups)} groups (+nan alone: {nan_place == 'alone'}) for max_n_mod={cfg['max_n_mod']}")
        return
    fitted_key = partition_key(groups)

    def describe(c):
        return f"measure={c['measure']:.9f} viable={c['viable']} n={c['n']} s={c['s']}"

    if not stage2_needed:
        match = [c for c in c1 if partition_key(groups_of(c["cuts"], k)) == fitted_key]
        if not match:
            out.violate("fitted-grouping-not-a-candidate", f"{feat}: groups {groups} not among the consecutive groupings")
            return
        fit = match[0]
        if fit in s1 or any(partition_key(groups_of(c["cuts"], k)) == fitted_key for c in s1):
            return
        if fit["viable"] is False:
            why = "dev" if fit["viable_train"] is not False else "train"
            out.violate(f"fitted-grouping-not-viable:{why}", f"{feat}: fitted {groups} is not viable ({describe(fit)}); min_freq_mod={float(search.mfm)}")
            return
        better = max((c for c in c1 if c["viable"] is True), key=lambda c: c["measure"], default=None)
        out.violate(
            "fitted-grouping-not-optimal:stage1",
            f"{feat}: fitted {groups} ({describe(fit)}) but cuts {better['cuts']} is surely viable with {describe(better)}; "
            f"buckets n={train.n.tolist()} s={train.s.tolist()} max_n_mod={cfg['max_n_mod']} min_freq_mod={float(search.mfm)}",
        )
        return

    # ---- stage 2
    found_fit = None
    best_seen = None
    for g in s1:
        c2 = search.stage2(g["cuts"])
        s2, best2 = admissible(c2)
        for c in c2:
            if partition_key(c["groups"]) == fitted_key and c["nan"] == nan_place:
                found_fit = c if found_fit is None else found_fit
                if c in s2:
                    if c["nan"] == "alone":
                        out.label("nan-alone-optimal")
                    return
        if best2 is not None:
            cand = max((c for c in c2 if c["viable"] is True), key=lambda c: c["measure"])
            best_seen = cand if best_seen is None or cand["measure"] > best_seen["measure"] else best_seen
    if found_fit is None:
        out.violate(
            "fitted-grouping-not-reachable-from-an-optimal-stage1",
            f"{feat}: fitted {groups} nan={nan_place} is not a regrouping of an admissible stage-1 optimum "
            f"{[c['cuts'] for c in s1][:4]}; buckets n={train.n.tolist()} s={train.s.tolist()}",
        )
        return
    if found_fit["viable"] is False:
        out.violate("fitted-grouping-not-viable:stage2", f"{feat}: fitted {groups} nan={nan_place}: {describe(found_fit)}; min_freq_mod={float(search.mfm)}")
        return
    out.violate(
        "fitted-grouping-not-optimal:stage2",
        f"{feat}: fitted {groups} nan={nan_place} ({describe(found_fit)}) but {best_seen and (best_seen['groups'], best_seen['nan'])} is surely viable with "
        f"{best_seen and describe(best_seen)}; buckets n={train.n.tolist()} s={train.s.tolist()}",
    )


def check_case(case) -> Outcome:
    out = Outcome()
    cfg = case["config"]
    out.label(f"cls:{cfg['cls']}", f"sort_by:{cfg['sort_by']}")
    sample = build(case)
    if sample.X_dev is not None:
        out.label("dev")
    carver = make_object(case)
    res = fit_object(carver, case, sample)
    if not res.ok:
        return discard(f"fit-raised:{res.exc_type}", out.labels)
    base = fit_base_discretizer(case, sample)
    if not base.ok:
        return discard(f"base-discretizer-raised:{base.exc_type}", out.labels)
    base = base.value
    kept = set(carver.features)
    tr = None
    if kept:
        tr_res = observe(carver.transform, sample.X.copy())
        if not tr_res.ok:
            return discard(f"transform-raised:{tr_res.exc_type}", out.labels)
        tr = tr_res.value
    for spec in case["features"]:
        feat = spec["name"]
        check_feature(out, case, sample, carver, feat in kept, feat, spec, base, tr)
    return out


# ----------------------------------------------------------------------------- enumerated tie family
def tie_family():
    """A small structured family enumerated completely on every run: 3-4 ordinal modalities under every naming
    whose alphabetical order differs from (or equals) the ranking, target-rate profiles with exact ties between
    non-adjacent groups / between the missing values and the last group / between adjacent groups, with and
    without missing values, for every measure and max_n_mod in {3, 4}."""
    import itertools

    profiles = [
        # (rows per modality, ones per modality, missing rows, missing ones)
        ([50, 50, 50], [10, 25, 10], 50, 40),  # U shape, outer groups tie
        ([50, 50, 50], [10, 25, 10], 0, 0),
        ([20, 40, 30], [2, 24, 3], 30, 18),  # missing values tie with the middle group
        ([20, 20, 40], [2, 2, 12], 20, 6),  # adjacent tie + missing values tie with the last group
        ([40, 40, 40, 40], [8, 20, 8, 30], 40, 30),  # zig-zag with a non-adjacent tie
        ([30, 30, 30, 30], [6, 15, 24, 15], 30, 3),
    ]
    namings = [("A", "C", "B", "D"), ("B", "A", "D", "C"), ("A", "B", "C", "D"), ("D", "C", "B", "A")]
    for (rows, ones, n_nan, ones_nan), names, sort_by, max_n_mod in itertools.product(profiles, namings, ("cramerv", "tschuprowt", "kruskal"), (3, 4)):
        k = len(rows)
        values = list(names[:k])
        level1 = list(ones) + [ones_nan]
        level0 = [r - o for r, o in zip(rows, ones)] + [n_nan - ones_nan]
        if sort_by == "kruskal":
            # continuous target with three levels: zeros, ones, and a few twos taken from the ones of the first group
            twos = [min(2, level1[0])] + [0] * k
            level1 = [a - b for a, b in zip(level1, twos)]
            target = {"kind": "continuous", "levels": [0, 1, 2], "blocks": [sum(level0), sum(level1), sum(twos)]}
            table = [level0, level1, twos]
            cls = "ContinuousCarver"
        else:
            target = {"kind": "binary", "levels": [0, 1], "blocks": [sum(level0), sum(level1)]}
            table = [level0, level1]
            cls = "BinaryCarver"
        yield {
            "target": target, "dev_blocks": None,
            "features": [{"name": "o0", "kind": "ordinal", "values": values, "ranking": values, "train": table, "dev": None}],
            "key": 3, "index": "range",
            "config": {"cls": cls, "min_freq": 0.1, "min_freq_mod": None, "max_n_mod": max_n_mod, "dropna": True, "output_dtype": "float",
                       "copy": True, "sort_by": sort_by, "n_jobs": 1},
        }


def extra_run(tier, seed_value, findings):
    from core.outcome import case_hash

    evaluations, nontrivial, violations, known = 0, set(), [], {}
    for case in tie_family():
        outcome = check_case(case)
        evaluations += 1
        if outcome.status == "discard":
            continue
        if outcome.nontrivial:
            nontrivial.add(case_hash(case))
        for sig, msg in outcome.all_violations():
            if findings.match_open(PID, sig):
                known[sig] = known.get(sig, 0) + 1
            elif not any(v[0] == sig for v in violations):
                violations.append((sig, "[tie family] " + msg, case))
    return {"evaluations": evaluations, "nontrivial": nontrivial, "violations": violations, "known_hits": known,
            "classes": {"tie_family_case": evaluations},
            "coverage": {"tie_family_cases": evaluations, "tie_family_note": "structured family of exact-tie samples enumerated completely (6 rate profiles x 4 namings x 3 measures x 2 max_n_mod)"}}
