"""C02 — carved features respect max_n_mod, min_freq_mod and dev robustness."""
from fractions import Fraction

from hypothesis import strategies as st

from core.outcome import Outcome, discard, observe
from gen.objects import CARVERS, binary_view, fit_object, fitted_case, make_object
from gen.samples import build
from oracles.mapping import is_missing
from oracles.views import feature_views, raw_feature

PID = "C02"
RULE = (
    "Table-first samples (same generator as C01: groups at exactly min_freq_mod*n rows, missing values that can "
    "only be merged, modalities absent from dev, max_n_mod in {2..7}) x Binary/Continuous/MulticlassCarver x all "
    "parameters; three in eight continuous targets in a small unit (values x 2^-10 / 2^-12 / 2^-17). Oracle: direct postconditions on public outputs only: transform(X_train) has <= max_n_mod "
    "distinct non-missing labels per kept feature, each carried by >= min_freq_mod of the rows (non-missing rows "
    "when dropna=False; exact Fraction comparison), no missing output with dropna=True, missing preserved in "
    "place with dropna=False; with dev: same label set, same frequency bound, no strict inversion between the "
    "rankings of labels by mean target. Non-trivial: a feature is kept with >= 2 labels."
)
BOUNDS = {"rows": "12-400", "features": "1-3"}
ASSUMPTIONS = ["pairs of labels whose mean targets tie exactly in either sample are not judged for rank agreement"]
BUDGET = {"quick": 1200, "thorough": 60000}
DEADLINE_S = {"quick": 200, "thorough": 3300}


UNITS = {0: 2.0**-10, 1: 2.0**-12, 2: 2.0**-17}


def micro_unit(t):
    """Three in eight continuous targets are expressed in a small unit (values x 2^-10, 2^-12 or 2^-17, exact in
    binary64): label means then differ by about 1e-4 or less, which the stated constraints (frequencies, strict rank
    agreement between train and dev) do not care about."""
    case, pick = t
    if case["target"]["kind"] == "continuous" and pick in UNITS:
        case = dict(case, target=dict(case["target"], levels=[float(v) * UNITS[pick] for v in case["target"]["levels"]], micro_unit=True))
    return case


def strategy(tier):
    cases = fitted_case(CARVERS + ("BinaryCarver", "ContinuousCarver"), dev_modes=("none", "same", "perturbed", "independent", "independent"))
    return st.tuples(cases, st.integers(0, 7)).map(micro_unit)


def dec(x):
    return Fraction(repr(x))


def label_stats(labels, ys):
    """label -> (count, exact sum of y)"""
    stats = {}
    for lab, yv in zip(labels, ys):
        if is_missing(lab):
            continue
        key = lab if isinstance(lab, str) else float(lab)
        n, s = stats.get(key, (0, Fraction(0)))
        stats[key] = (n + 1, s + Fraction(yv))
    return stats


def check_case(case) -> Outcome:
    out = Outcome()
    cfg = case["config"]
    cls = cfg["cls"]
    out.label(f"cls:{cls}")
    if case["target"].get("micro_unit"):
        out.label("target-in-micro-unit")
    sample = build(case)
    obj = make_object(case)
    res = fit_object(obj, case, sample)
    if not res.ok:
        return discard(f"fit-raised:{res.exc_type}", out.labels)
    views = list(feature_views(obj, case))
    if not views:
        return discard("no-feature-kept", out.labels)
    mfm = dec(cfg["min_freq_mod"]) if cfg["min_freq_mod"] is not None else dec(cfg["min_freq"]) / 2
    dropna = cfg["dropna"]
    tr = observe(obj.transform, sample.X.copy())
    if not tr.ok:
        out.violate(f"transform-train-raised:{tr.bucket()}", f"transform(X_train) raised {tr.exc!r}")
        return out
    dev_out = None
    if sample.X_dev is not None:
        out.label("dev")
        dv = observe(obj.transform, sample.X_dev.copy())
        if not dv.ok:
            out.violate(f"transform-dev-raised:{dv.bucket()}", f"transform(X_dev) raised {dv.exc!r} although fit accepted X_dev")
            return out
        dev_out = dv.value
    tag = "multiclass:" if cls == "MulticlassCarver" else ""
    for feat, raw, spec in views:
        _, level = raw_feature(case, feat)
        y_train = binary_view(case, sample, level).tolist() if cls == "MulticlassCarver" else sample.y.tolist()
        raws = sample.X[raw].tolist()
        labels = tr.value[feat].tolist()
        missing_in = [is_missing(v) for v in raws]
        missing_out = [is_missing(v) for v in labels]
        if dropna and any(missing_out):
            out.violate(f"{tag}missing-output-with-dropna", f"{feat}: {sum(missing_out)} missing outputs with dropna=True")
            continue
        if not dropna and missing_in != missing_out:
            out.violate(f"{tag}missing-not-preserved-in-place", f"{feat}: missing inputs {sum(missing_in)} vs missing outputs {sum(missing_out)} (dropna=False)")
            continue
        stats = label_stats(labels, y_train)
        denom = sum(n for n, _ in stats.values())
        if len(stats) >= 2:
            out.nontrivial = True
        if len(stats) > cfg["max_n_mod"]:
            out.violate(f"{tag}more-labels-than-max_n_mod", f"{feat}: {len(stats)} labels {sorted(stats, key=str)} for max_n_mod={cfg['max_n_mod']}")
        for lab, (n, _) in stats.items():
            if Fraction(n, denom) < mfm:
                out.violate(f"{tag}label-rarer-than-min_freq_mod:train", f"{feat}: label {lab!r} carries {n}/{denom} rows < min_freq_mod={float(mfm)}")
                break
            if Fraction(n, denom) == mfm:
                out.label("label-exactly-at-min_freq_mod")
        if any(missing_in):
            out.label("has-missing")
        if dev_out is not None:
            y_dev = binary_view(case, _DevView(sample), level).tolist() if cls == "MulticlassCarver" else sample.y_dev.tolist()
            dlabels = dev_out[feat].tolist()
            dstats = label_stats(dlabels, y_dev)
            if dropna and any(is_missing(v) for v in dlabels):
                out.violate(f"{tag}missing-output-with-dropna:dev", f"{feat}: missing outputs on X_dev with dropna=True")
                continue
            if set(dstats) != set(stats):
                out.violate(f"{tag}dev-label-set-differs", f"{feat}: train labels {sorted(stats, key=str)} vs dev labels {sorted(dstats, key=str)}")
                continue
            ddenom = sum(n for n, _ in dstats.values())
            for lab, (n, _) in dstats.items():
                if Fraction(n, ddenom) < mfm:
                    out.violate(f"{tag}label-rarer-than-min_freq_mod:dev", f"{feat}: label {lab!r} carries {n}/{ddenom} dev rows < min_freq_mod={float(mfm)}")
                    break
            labs = list(stats)
            for i, a in enumerate(labs):
                for b in labs[i + 1 :]:
                    ta = stats[a][1] / stats[a][0] - stats[b][1] / stats[b][0]
                    da = dstats[a][1] / dstats[a][0] - dstats[b][1] / dstats[b][0]
                    if ta != 0 and da != 0 and (ta > 0) != (da > 0):
                        out.violate(f"{tag}rank-inversion-between-train-and-dev", f"{feat}: labels {a!r},{b!r}: train means differ by {float(ta):.4f}, dev by {float(da):.4f}")
                        break
                else:
                    continue
                break
    return out


class _DevView:
    """binary_view reads sample.y: present the dev target under that name."""

    def __init__(self, sample):
        self.y = sample.y_dev
