"""C03 — grouping preserves each feature's order (contiguity, monotone transform)."""
import math
from fractions import Fraction

import numpy as np
import pandas as pd
from hypothesis import strategies as st

from core.outcome import Outcome, discard, observe
from gen.objects import CARVERS, binary_view, fit_base_discretizer, fit_object, fitted_case, make_object
from gen.samples import build
from oracles.mapping import content_of, eq, is_missing, is_num, ref_group
from oracles.views import canonical_str, feature_views, raw_feature

PID = "C03"
RULE = (
    "Table-first samples (ordinal rankings in non-alphabetical order with unobserved levels, heavy ties, "
    "spikes) x Discretizer / QuantitativeDiscretizer / QualitativeDiscretizer / Binary-, Continuous-, "
    "MulticlassCarver. Oracle (a) contiguity read from values_orders: quantitative leaders strictly "
    "increasing with inf last and members inside (prev, leader]; ordinal groups = runs of consecutive ranks "
    "in ranking order; categorical groups contiguous in exact (Fraction) training target-rate order of the "
    "base modalities (base modalities from an independently fitted Discretizer). (b) probing transform on "
    "boundaries, their float neighbours, midpoints, extremes (+-1e308) and 0: labels form a non-decreasing "
    "right-closed step function ('float': numerically non-decreasing; 'str': every label is one contiguous "
    "run); ordinal values probed along the ranking. Non-trivial: a feature with >= 3 groups, one merged."
)
BOUNDS = {"rows": "12-400", "features": "1-3"}
ASSUMPTIONS = ["exact target rates (integer counts / integer-valued targets) are used to decide rate order; ties are free"]
BUDGET = {"quick": 1600, "thorough": 60000}
DEADLINE_S = {"quick": 200, "thorough": 3300}
CLASSES = ("Discretizer", "QuantitativeDiscretizer", "QualitativeDiscretizer") + CARVERS + ("BinaryCarver", "ContinuousCarver")
STR_NAN, STR_DEFAULT = "__NAN__", "__OTHER__"
INF = float("inf")


def strategy(tier):
    return fitted_case(CLASSES, dev_modes=("none", "none", "same", "perturbed"))


def exact_rate(y_values):
    vals = [Fraction(v) for v in y_values]
    return sum(vals) / len(vals) if vals else None


def check_case(case) -> Outcome:
    out = Outcome()
    cfg = case["config"]
    cls = cfg["cls"]
    out.label(f"cls:{cls}")
    sample = build(case)
    obj = make_object(case)
    res = fit_object(obj, case, sample)
    if not res.ok:
        return discard(f"fit-raised:{res.exc_type}", out.labels)
    if not list(obj.features):
        return discard("no-feature-kept", out.labels)
    is_carver = cls in CARVERS
    out_float = is_carver and cfg["output_dtype"] == "float"
    base = None

    for feat, raw, spec in feature_views(obj, case):
        order = obj.values_orders[feat]
        leaders = list(order)
        non_nan = [l for l in leaders if not (isinstance(l, str) and l == STR_NAN)]
        kind = spec["kind"]
        merged = False
        # ------------------------------------------------------------------ (a) contiguity
        if kind in ("continuous", "discrete"):
            nums = [l for l in non_nan]
            if any(isinstance(l, str) for l in nums) or not nums or nums[-1] != INF:
                out.violate("quantitative-leaders-malformed", f"{feat}: leaders {leaders!r}")
                continue
            if any(b <= a for a, b in zip(nums, nums[1:])):
                out.violate("quantitative-leaders-not-increasing", f"{feat}: leaders {leaders!r}")
                continue
            prev = -INF
            for l in nums:
                members = [m for m in content_of(order, l) if not isinstance(m, str)]
                merged = merged or len(members) > 1
                bad = [m for m in members if not (prev < m <= l)]
                if bad:
                    out.violate("quantitative-member-outside-interval", f"{feat}: members {bad!r} of group {l!r} not in ({prev}, {l}]; content {dict(order.content)!r}")
                    break
                prev = l
        elif kind == "ordinal":
            ranking = list(spec["ranking"])
            rank = {v: i for i, v in enumerate(ranking)}
            last_max = -1
            for l in non_nan:
                members = [m for m in content_of(order, l) if isinstance(m, str) and m != STR_NAN and m in rank]
                ranks = sorted(rank[m] for m in members)
                merged = merged or len(ranks) > 1
                if not ranks:
                    out.violate("ordinal-group-without-ranked-member", f"{feat}: group {l!r} content {content_of(order, l)!r}")
                    break
                if ranks != list(range(ranks[0], ranks[-1] + 1)):
                    out.violate("ordinal-group-not-consecutive", f"{feat}: group {l!r} holds ranks {ranks} of ranking {ranking!r}")
                    break
                if ranks[0] <= last_max:
                    out.violate("ordinal-groups-out-of-ranking-order", f"{feat}: groups {non_nan!r} not in ranking order {ranking!r}")
                    break
                last_max = ranks[-1]
        elif kind == "categorical":
            # base modalities and their exact training target rates
            if is_carver:
                if base is None:
                    base = fit_base_discretizer(case, sample)
                if not base.ok or raw not in base.value.features:
                    out.label("base-discretizer-unavailable")
                    continue
                _, level = raw_feature(case, feat)
                y_view = binary_view(case, sample, level)
                base_order = base.value.values_orders[raw]
            else:
                y_view = binary_view(case, sample)
                base_order = order
            y_list = y_view.tolist()
            per_base = {}
            for v, yv in zip(sample.X[raw].tolist(), y_list):
                if is_missing(v):
                    continue
                pos, lead = ref_group(base_order, v, False, STR_NAN)
                if pos is None:
                    continue
                per_base.setdefault(pos, []).append(yv)
            base_leaders = list(base_order)
            rates = {base_leaders[pos]: exact_rate(ys) for pos, ys in per_base.items()}
            rates = {k: r for k, r in rates.items() if not (isinstance(k, str) and k == STR_NAN)}
            if not is_carver:
                # natural order of a categorical feature = non-decreasing training target rate
                seq = [rates[l] for l in non_nan if l in rates]
                if any(b < a for a, b in zip(seq, seq[1:])):
                    out.violate("categorical-order-not-by-target-rate", f"{feat}: leaders {non_nan!r} have rates {[str(r) for r in seq]}")
                merged = any(isinstance(l, str) and l == STR_DEFAULT for l in non_nan)
            else:
                group_of = {}
                for l in non_nan:
                    members = [m for m in content_of(order, l) if isinstance(m, str)]
                    for b in rates:
                        if any(eq(b, m) for m in members):
                            group_of[b] = l
                for l in non_nan:
                    inside = [rates[b] for b in rates if group_of.get(b) == l]
                    merged = merged or len(inside) > 1
                    if len(inside) < 2:
                        continue
                    lo, hi = min(inside), max(inside)
                    between = [b for b in rates if group_of.get(b) != l and lo < rates[b] < hi]
                    if between:
                        out.violate("categorical-group-not-contiguous-in-rate-order", f"{feat}: group {l!r} spans rates [{lo}, {hi}] but {between!r} (rates {[str(rates[b]) for b in between]}) lie strictly inside")
                        break
        if len(non_nan) >= 3 and merged:
            out.nontrivial = True

        # ------------------------------------------------------------------ (b) probing transform
        if kind in ("continuous", "discrete"):
            finite = [float(l) for l in non_nan if l != INF]
            train_vals = [float(v) for v in sample.X[raw].tolist() if not is_missing(v)]
            pts = set(finite) | {0.0, 1e308, -1e308} | ({min(train_vals), max(train_vals)} if train_vals else set())
            for b in finite:
                pts.add(float(np.nextafter(b, INF)))
                pts.add(float(np.nextafter(b, -INF)))
            for a, b in zip(finite, finite[1:]):
                mid = a / 2 + b / 2
                if a < mid < b:
                    pts.add(mid)
            xs = sorted(p for p in pts if math.isfinite(p))
        elif kind == "ordinal":
            xs = list(spec["ranking"])
        else:
            continue
        template = sample.X.iloc[[0] * len(xs)].copy()
        template.index = range(len(xs))
        if kind == "ordinal":
            template[raw] = pd.Series(xs, index=template.index, dtype=object)
        else:
            template[raw] = pd.Series(xs, index=template.index, dtype=float)
        # other columns must be acceptable: take a training row without missing values when possible
        full_rows = sample.X.dropna()
        src = full_rows.iloc[0] if len(full_rows) else sample.X.iloc[0]
        for col in template.columns:
            if col != raw:
                template[col] = [src[col]] * len(xs)
        probed = observe(obj.transform, template.copy())
        if not probed.ok:
            if isinstance(probed.exc, AssertionError) and kind == "ordinal":
                out.label("probe-rejected")
                continue
            if isinstance(probed.exc, AssertionError) and any(is_missing(v) for v in src.tolist()):
                out.label("probe-rejected-missing-in-other-column")
                continue
            out.violate(f"probe-transform-raised:{probed.bucket()}", f"{feat}: transform of probe values raised {probed.exc!r}")
            continue
        labels = probed.value[feat].tolist()
        out.label("probed")
        if out_float:
            nums = []
            for x, lab in zip(xs, labels):
                if not is_num(lab) or is_missing(lab):
                    out.violate("probe-label-not-a-rank", f"{feat}: probe {x!r} -> {lab!r}")
                    break
                nums.append(float(lab))
            else:
                for (x0, l0), (x1, l1) in zip(zip(xs, nums), zip(xs[1:], nums[1:])):
                    if l1 < l0:
                        out.violate(f"transform-not-monotone:{'quantitative' if kind != 'ordinal' else 'ordinal'}", f"{feat}: label drops from {l0} at {x0!r} to {l1} at {x1!r}")
                        break
        else:
            seen, last = set(), None
            for x, lab in zip(xs, labels):
                key = ("nan",) if is_missing(lab) else lab
                if key != last:
                    if key in seen:
                        out.violate(f"label-not-a-contiguous-run:{'quantitative' if kind != 'ordinal' else 'ordinal'}", f"{feat}: label {lab!r} re-appears at {x!r} after another label; probes {list(zip(xs, labels))[:30]!r}")
                        break
                    seen.add(key)
                    last = key
        if kind != "ordinal" and out.status == "ok":
            lab_at = dict(zip(xs, labels))
            prev = None
            for b in finite:
                up = float(np.nextafter(b, INF))
                down = float(np.nextafter(b, -INF))
                if values_differ(lab_at[b], lab_at[down]) and (prev is None or down > prev):
                    out.violate("step-not-right-closed", f"{feat}: boundary {b!r} gets {lab_at[b]!r} but its predecessor float {down!r} gets {lab_at[down]!r}")
                    break
                if not values_differ(lab_at[b], lab_at[up]):
                    out.violate("step-does-not-change-after-boundary", f"{feat}: boundary {b!r} and the next float both get {lab_at[b]!r}; leaders {leaders!r}")
                    break
                prev = b
    return out


def values_differ(a, b) -> bool:
    if is_missing(a) or is_missing(b):
        return not (is_missing(a) and is_missing(b))
    return a != b
