"""C04 — transform is exactly the mapping described by the fitted values_orders."""
import json

from hypothesis import strategies as st

from core.outcome import Outcome, discard, observe
from gen.objects import CARVERS, EDIT_STRATEGY, PIPELINES, STEPS, apply_edits, fit_object, fitted_case, make_object, object_dropna
from gen.samples import build, summarize
from oracles.mapping import content_of, is_missing, is_num, ref_group, groups_containing, values_equal, eq
from oracles.views import feature_views, canonical_str

PID = "C04"
RULE = (
    "Table-first samples (12-400 rows, 1-3 features of every kind incl. boundaries differing beyond 4 "
    "significant digits and numeric-valued categories) x every discretizer/carver class x "
    "output_dtype x dropna, plus the object rebuilt from JSON, a third of the objects edited by hand "
    "(update_discretizer: group / replace / missing values / new category) before transforming. Oracle: reference mapping computed from "
    "values_orders (list + content) only; every training value has exactly one group, labels are a "
    "function of the group and injective, float labels = rank, str labels of qualitative features = "
    "leader, missing rows per dropna; string-form probe of numeric categories. Non-trivial: a kept "
    "feature with >= 2 groups one of which merges several values."
)
BOUNDS = {"rows": "12-400", "features": "1-3", "modalities": "<=60"}
ASSUMPTIONS = [
    "fit failures are not judged here (C08/C19); only successfully fitted objects are checked",
    "values_orders (list order + content dict) is read as plain data",
]
BUDGET = {"quick": 1600, "thorough": 60000}
DEADLINE_S = {"quick": 200, "thorough": 3300}

CLASSES = CARVERS + PIPELINES + STEPS + ("BinaryCarver", "ContinuousCarver", "Discretizer", "ChainedDiscretizer")


def strategy(tier):
    # a third of the objects are edited by hand (update_discretizer) before they transform: the mapping is the one
    # described by the values_orders the object holds at that moment
    edits = st.one_of(st.just([]), st.just([]), EDIT_STRATEGY)
    return st.tuples(fitted_case(CLASSES), st.booleans(), edits).map(lambda t: dict(t[0], via_json=t[1], edits=t[2]))


def check_mapping(out: Outcome, obj, case, sample, frame, result, tag="", labelled_nan=()):
    """Core of C04 on one (input frame, transform result) pair."""
    cfg = case["config"]
    is_carver = cfg["cls"] in CARVERS
    out_dtype = cfg.get("output_dtype", "str") if is_carver else "str"
    dropna_all = object_dropna(case)
    str_nan = "__NAN__"
    nontrivial = False
    for feat, raw, spec in feature_views(obj, case):
        dropna = dropna_all or feat in labelled_nan  # missing values grouped by hand get a label
        quantitative = spec["kind"] in ("continuous", "discrete")
        order = obj.values_orders[feat]
        if feat not in result.columns:
            out.violate(f"{tag}kept-feature-missing-from-output", f"{feat} not in transform output")
            continue
        raws = frame[raw].tolist()
        labels = result[feat].tolist()
        by_group = {}
        n_groups = len(list(order))
        merged = False
        for v, lab in zip(raws, labels):
            if not quantitative and not is_missing(v):
                found = groups_containing(order, v)
                if len(found) != 1:
                    out.violate(f"{tag}value-not-in-exactly-one-group", f"{feat}: training value {v!r} is in groups {found!r}")
                    break
            pos, leader = ref_group(order, v, quantitative, str_nan)
            if pos is None:
                out.violate(f"{tag}training-value-without-group", f"{feat}: training value {v!r} belongs to no group of {list(order)!r}")
                break
            if is_missing(v) and not dropna:
                if not is_missing(lab):
                    out.violate(f"{tag}missing-not-preserved-dropna-false", f"{feat}: missing value got label {lab!r} with dropna=False")
                    break
                continue
            if not dropna and not quantitative and any(isinstance(m, str) and m == str_nan for m in content_of(order, leader)):
                # a value filed with the missing values (ChainedDiscretizer, unknown_handling='drop': "merged with
                # missing values", C18) is a missing value for the object: it stays missing like them
                out.label("ordinary-value-in-missing-value-group")
                if not is_missing(lab):
                    out.violate(f"{tag}value-filed-with-missing-values-not-left-missing", f"{feat}: value {v!r} belongs to the missing-value group but got label {lab!r} with dropna=False")
                    break
                continue
            if is_missing(lab):
                out.violate(f"{tag}label-missing", f"{feat}: value {v!r} of group {leader!r} got a missing label (dropna={dropna})")
                break
            by_group.setdefault(pos, []).append(lab)
            if out_dtype == "float":
                if not is_num(lab) or float(lab) != float(pos):
                    out.violate(f"{tag}float-label-not-rank", f"{feat}: value {v!r} in group #{pos} ({leader!r}) got label {lab!r}")
                    break
            elif not quantitative:
                if not (isinstance(lab, str) and eq(lab, leader)):
                    out.violate(f"{tag}str-label-not-leader", f"{feat}: value {v!r} of group {leader!r} got label {lab!r}")
                    break
        else:
            # label is a function of the group, injective across groups
            label_of = {}
            for pos, labs in by_group.items():
                first = labs[0]
                if not all(values_equal(first, lab) for lab in labs):
                    out.violate(f"{tag}several-labels-for-one-group", f"{feat}: group #{pos} got labels {sorted(set(map(repr, labs)))[:5]}")
                    break
                label_of[pos] = first
            else:
                seen = {}
                for pos, lab in label_of.items():
                    key = repr(lab) if isinstance(lab, str) else float(lab)
                    if key in seen:
                        kind = "quantitative" if quantitative else "qualitative"
                        out.violate(
                            f"{tag}distinct-groups-share-label:{kind}",
                            f"{feat}: groups #{seen[key]} and #{pos} of {list(order)!r} both get label {lab!r}",
                        )
                        break
                    seen[key] = pos
        # non-triviality
        if quantitative:
            distinct = len({float(v) for v in raws if not is_missing(v)})
            merged = distinct > sum(1 for l in order if not isinstance(l, str))
        else:
            merged = any(len([m for m in order.content.get(l, []) if isinstance(m, str)]) > 1 for l in order)
        if n_groups >= 2 and merged:
            nontrivial = True
        if quantitative and spec.get("pool") in ("yyyymm", "big", "near"):
            out.label("near-equal-boundaries")
        if spec.get("flavour") in ("ints", "floats", "mixed", "numstr"):
            out.label("numeric-categories")
        if any(is_missing(v) for v in raws):
            nan_pos, nan_leader = ref_group(order, None, quantitative, str_nan)
            if not dropna:
                out.label("nan:dropna-false")
            elif nan_leader == str_nan:
                out.label("nan:own-group")
            else:
                out.label("nan:merged")
    return nontrivial


def check_case(case) -> Outcome:
    out = Outcome()
    cfg = case["config"]
    out.label(f"cls:{cfg['cls']}")
    sample = build(case)
    obj = make_object(case)
    res = fit_object(obj, case, sample)
    if not res.ok:
        return discard(f"fit-raised:{res.exc_type}", out.labels)
    target = obj
    tag = ""
    labelled_nan = set()
    if case.get("edits") and cfg["cls"] != "MulticlassCarver":
        ok, labelled_nan, edit_labels = apply_edits(obj, case, case["edits"])
        if not ok:
            return discard("edit-raised", out.labels)  # edits themselves are C17's subject
        out.label(*edit_labels)
    if case.get("via_json"):
        from AutoCarver.discretizers import load_discretizer

        dumped = observe(lambda: json.loads(json.dumps(obj.to_json())))
        if not dumped.ok:
            return discard(f"to_json-raised:{dumped.exc_type}", out.labels)
        dumped.value.pop("_history", None)
        loaded = observe(load_discretizer, dumped.value)
        if not loaded.ok:
            return discard(f"load-raised:{loaded.exc_type}", out.labels)
        target = loaded.value
        tag = "reloaded:"
        out.label("via-json")
    if not list(target.features):
        return discard("no-feature-kept", out.labels)
    frame = sample.X.copy()
    result = observe(target.transform, frame.copy())
    if not result.ok:
        out.violate(f"{tag}transform-of-training-data-raised:{result.bucket()}", f"transform(X_train) raised {result.exc!r}")
        return out
    out.nontrivial = check_mapping(out, target, case, sample, sample.X, result.value, tag, labelled_nan)

    # string-form probe: numeric categories are matched through their string form
    probe = sample.X.copy()
    changed = False
    for feat, raw, spec in feature_views(target, case):
        if spec["kind"] == "categorical" and any(is_num(v) for v in spec["values"]):
            probe[raw] = probe[raw].map(lambda v: v if is_missing(v) or isinstance(v, str) else canonical_str(v)).astype(object)
            changed = True
    if changed and out.status == "ok":
        out.label("string-form-probe")
        again = observe(target.transform, probe.copy())
        if not again.ok:
            out.violate(f"{tag}string-form-rejected:{again.exc_type}", f"string forms of numeric categories rejected: {again.exc!r}")
        else:
            from oracles.mapping import frames_equal

            diff = frames_equal(result.value[list(target.features)], again.value[list(target.features)])
            if diff:
                out.violate(f"{tag}string-form-changes-output", f"replacing numeric categories by their string form changed the output: {diff}")
    return out
