"""C05 — unseen data gets fitted labels or is rejected, never passed through."""
import numpy as np
import pandas as pd
from hypothesis import strategies as st

from core.outcome import Outcome, discard, observe
from gen.objects import CARVERS, EDIT_STRATEGY, PIPELINES, STEPS, apply_edits, fit_object, fitted_case, make_object, object_dropna
from gen.samples import build
from oracles.mapping import content_of, eq, is_missing, is_num, known_values, ref_group, values_equal
from oracles.views import feature_views

PID = "C05"
RULE = (
    "A fitted object (all discretizer/carver classes, table-first samples) and 3-5 NEW frames described by "
    "value selectors resolved against the fitted state: seen values, values at/next to every boundary "
    "(nextafter), +-1e308, denormals, 0, ints for float columns, unseen categories (strings and numbers, the "
    "same unseen value may occur in several columns; values of another qualitative feature's vocabulary), missing values where none were seen, empty and "
    "single-row frames, extra/permuted columns. Oracle computed from values_orders: a *cause* exists iff an "
    "unseen category meets a feature without default group or a missing value meets a feature without "
    "missing values at fit; cause => AssertionError naming a feature that has a cause; no cause => success and "
    "every output equals the label of the value's reference group (unseen categories -> default group's label, "
    "missing per dropna). Both directions are checked. Non-trivial: the frame holds >= 1 value absent from the "
    "training column."
)
BOUNDS = {"rows_new_frame": "0-8", "frames_per_fit": "3-5", "train_rows": "12-400"}
ASSUMPTIONS = ["new frames always carry every fitted column (missing columns are C19's subject)"]
BUDGET = {"quick": 1000, "thorough": 30000}
DEADLINE_S = {"quick": 200, "thorough": 3300}
CLASSES = CARVERS + PIPELINES + STEPS + ("BinaryCarver", "ContinuousCarver", "Discretizer", "ChainedDiscretizer")
STR_NAN, STR_DEFAULT = "__NAN__", "__OTHER__"
UNSEEN = ["UNSEEN_a", "unseen b", 98765, 1234.5, "98765", "nan", "None", ""]
INF = float("inf")


def strategy(tier):
    selector = st.one_of(
        st.tuples(st.just("seen"), st.integers(0, 63)),
        st.tuples(st.just("seen"), st.integers(0, 63)),
        st.tuples(st.just("unseen"), st.integers(0, len(UNSEEN) - 1)),
        st.tuples(st.just("missing")),
        st.tuples(st.just("other"), st.integers(0, 63)),  # a value of another qualitative feature's vocabulary
        st.tuples(st.just("boundary"), st.integers(0, 63), st.sampled_from([-1, 0, 1])),
        st.tuples(st.just("boundary"), st.integers(0, 63), st.sampled_from([-1, 0, 1])),
        st.tuples(st.just("extreme"), st.sampled_from(["huge", "-huge", "denorm", "-denorm", "zero", "below", "above"])),
        st.tuples(st.just("int"), st.integers(0, 63)),
    )
    frame = st.fixed_dictionaries(
        {
            "n": st.sampled_from([0, 1, 1, 2, 3, 5, 8]),
            "cells": st.lists(st.lists(selector, min_size=8, max_size=8), min_size=4, max_size=4),
            "same_unseen": st.booleans(),
            "plant": st.sampled_from(["none", "none", "unseen_row", "unseen_row", "missing_row"]),
            "plant_value": st.integers(0, len(UNSEEN) - 1),
            "extra_col": st.booleans(),
            "reverse_cols": st.booleans(),
        }
    )
    # a third of the objects are edited by hand (update_discretizer) before they meet the new frames
    edits = st.one_of(st.just([]), st.just([]), EDIT_STRATEGY)
    return st.tuples(fitted_case(CLASSES, max_features=4), st.lists(frame, min_size=3, max_size=5), edits).map(
        lambda t: dict(t[0], frames=t[1], edits=t[2])
    )


def resolve(selector, spec, order, train_vals, others=()):
    """Raw value for a selector, given the feature spec and fitted order."""
    name = selector[0]
    quantitative = spec["kind"] in ("continuous", "discrete")
    if name == "missing":
        return np.nan
    if quantitative:
        finite = [float(l) for l in order if not isinstance(l, str) and l != INF]
        if name == "seen":
            return float(spec["values"][selector[1] % len(spec["values"])])
        if name == "int":
            v = spec["values"][selector[1] % len(spec["values"])]
            return int(v) if float(v).is_integer() and abs(v) < 2**53 else float(v)
        if name == "boundary":
            if not finite:
                return float(spec["values"][0])
            b = finite[selector[1] % len(finite)]
            if selector[2] == 0:
                return b
            return float(np.nextafter(b, INF if selector[2] > 0 else -INF))
        if name == "extreme":
            lo, hi = (min(train_vals), max(train_vals)) if train_vals else (0.0, 0.0)
            return {
                "huge": 1e308, "-huge": -1e308, "denorm": 5e-324, "-denorm": -5e-324, "zero": 0.0,
                "below": float(np.nextafter(lo, -INF)) if lo > -1e308 else lo,
                "above": float(np.nextafter(hi, INF)) if hi < 1e308 else hi,
            }[selector[1]]
        if name == "unseen":
            return 98765.4321 + selector[1]
        if name == "other":
            return float(spec["values"][selector[1] % len(spec["values"])])
        raise ValueError(selector)
    if name in ("seen", "int", "boundary"):
        return spec["values"][selector[1] % len(spec["values"])]
    if name == "unseen":
        return UNSEEN[selector[1] % len(UNSEEN)]
    if name == "other":
        return others[selector[1] % len(others)] if others else UNSEEN[selector[1] % len(UNSEEN)]
    if name == "extreme":
        return {"huge": "1e308", "zero": 0}.get(selector[1], "UNSEEN_a")
    raise ValueError(selector)


def check_case(case) -> Outcome:
    out = Outcome()
    cfg = case["config"]
    cls = cfg["cls"]
    out.label(f"cls:{cls}")
    sample = build(case)
    obj = make_object(case)
    res = fit_object(obj, case, sample)
    if not res.ok:
        return discard(f"fit-raised:{res.exc_type}", out.labels)
    views = list(feature_views(obj, case))
    if not views:
        return discard("no-feature-kept", out.labels)
    is_carver = cls in CARVERS
    out_float = is_carver and cfg["output_dtype"] == "float"
    dropna_all = object_dropna(case)
    labelled_nan = set()
    if case.get("edits") and cls != "MulticlassCarver":
        ok, labelled_nan, edit_labels = apply_edits(obj, case, case["edits"])
        if not ok:
            return discard("edit-raised", out.labels)  # edits themselves are C17's subject
        out.label(*edit_labels)

    train_out = observe(obj.transform, sample.X.copy())
    if not train_out.ok:
        return discard(f"train-transform-raised:{train_out.exc_type}", out.labels)
    # label of each group as observed on the training data
    group_label = {}
    for feat, raw, spec in views:
        quantitative = spec["kind"] in ("continuous", "discrete")
        order = obj.values_orders[feat]
        labs = {}
        dropna = dropna_all or feat in labelled_nan
        for v, lab in zip(sample.X[raw].tolist(), train_out.value[feat].tolist()):
            pos, _ = ref_group(order, v, quantitative, STR_NAN)
            if pos is not None and not (is_missing(v) and not dropna):
                labs.setdefault(pos, lab)
        group_label[feat] = labs

    raw_cols = list(sample.X.columns)
    kept_raw = {raw for _, raw, _ in views}
    for f_n, frame in enumerate(case["frames"]):
        n = frame["n"]
        data = {}
        new_index = pd.RangeIndex(5000, 5000 + n)
        for c_n, col in enumerate(raw_cols):
            spec = sample.specs[col]
            feats = [feat for feat, raw, _ in views if raw == col]
            order = obj.values_orders[feats[0]] if feats else None
            train_vals = [float(v) for v in sample.X[col].tolist() if not is_missing(v)] if spec["kind"] in ("continuous", "discrete") else []
            cells = [list(c) for c in frame["cells"][c_n % len(frame["cells"])][:n]]
            # planted row: the same unseen value (or a missing value) in every column of the row
            if n > 0 and frame.get("plant") == "unseen_row":
                cells[-1] = ["unseen", frame.get("plant_value", 0)]
            elif n > 0 and frame.get("plant") == "missing_row":
                cells[-1] = ["missing"]
            values = []
            for sel in cells:
                sel = list(sel)
                if sel[0] == "unseen" and frame["same_unseen"]:
                    sel[1] = frame.get("plant_value", 0)
                if order is None:  # dropped feature: any training value
                    values.append(sample.X[col].iloc[0])
                else:
                    others = [v for o_col, o_spec in sample.specs.items() if o_col != col and o_spec["kind"] in ("ordinal", "categorical") for v in o_spec["values"]]
                    values.append(resolve(sel, spec, order, train_vals, others))
            if spec["kind"] in ("continuous", "discrete"):
                if values and all(isinstance(v, int) for v in values):
                    data[col] = pd.Series(values, dtype="int64", index=new_index)
                else:
                    data[col] = pd.Series([float(v) for v in values], dtype="float64", index=new_index)
            else:
                data[col] = pd.Series(values, dtype=object, index=new_index)
        new = pd.DataFrame(data, index=new_index)
        if frame["extra_col"]:
            new["zz_extra"] = list(range(n))
        if frame["reverse_cols"]:
            new = new[list(new.columns)[::-1]]
        out.label(f"rows:{min(n, 3)}{'+' if n > 3 else ''}")

        # ---- expectation from the fitted state
        causes = {}
        expected = {}
        unseen_any = False
        for feat, raw, spec in views:
            quantitative = spec["kind"] in ("continuous", "discrete")
            dropna = dropna_all or feat in labelled_nan
            order = obj.values_orders[feat]
            known = known_values(order)
            has_default = any(isinstance(k, str) and k == STR_DEFAULT for k in known)
            has_nan = any(isinstance(k, str) and k == STR_NAN for k in known)
            train_set = sample.X[raw].tolist()
            exp = []
            for v in new[raw].tolist():
                if not any(values_equal(v, t) for t in train_set):
                    unseen_any = True
                if is_missing(v):
                    if not has_nan:
                        causes.setdefault(feat, []).append("missing-without-nan-at-fit")
                        exp.append(None)
                        continue
                    if not dropna:
                        exp.append(("nan",))
                        continue
                    pos, _ = ref_group(order, v, quantitative, STR_NAN)
                elif quantitative:
                    pos, _ = ref_group(order, v, True, STR_NAN)
                else:
                    if any(eq(v, k) for k in known):
                        pos, _ = ref_group(order, v, False, STR_NAN)
                    elif has_default:
                        pos, _ = ref_group(order, STR_DEFAULT, False, STR_NAN)
                        out.label("unseen->default")
                    else:
                        causes.setdefault(feat, []).append(f"unseen-category:{v!r}")
                        exp.append(None)
                        continue
                exp.append(("pos", pos))
            expected[feat] = exp

        got = observe(obj.transform, new.copy())
        if causes:
            out.label("expect-rejection")
            if got.ok:
                leak = ""
                for feat in causes:
                    leak = f"{feat} -> {got.value[feat].tolist()!r}"
                    break
                kinds = sorted({c.split(":")[0] for cs in causes.values() for c in cs})
                out.violate(f"cause-but-accepted:{'+'.join(kinds)}", f"frame {f_n}: causes {causes!r} but transform returned ({leak}); input {new.to_dict('list')!r}")
            elif not isinstance(got.exc, AssertionError):
                out.violate(f"cause-but-wrong-exception:{got.bucket()}", f"frame {f_n}: causes {causes!r} but raised {got.exc!r}")
            else:
                msg = str(got.exc)
                named = [feat for feat, raw, _ in views if (feat in causes) and (f"'{feat}'" in msg or f" {feat}" in msg or feat in msg)]
                if not named:
                    out.violate("rejection-names-no-guilty-feature", f"frame {f_n}: causes {causes!r} but message is {msg[:300]!r}")
        else:
            out.label("expect-acceptance")
            if not got.ok:
                tag = "empty-frame" if n == 0 else ("assertion" if isinstance(got.exc, AssertionError) else "crash")
                out.violate(f"no-cause-but-raised:{tag}:{got.bucket()}", f"frame {f_n}: no cause for rejection but transform raised {got.exc!r}; input {new.to_dict('list')!r}")
            else:
                for feat, raw, spec in views:
                    labs = got.value[feat].tolist() if feat in got.value else None
                    if labs is None or len(labs) != n:
                        out.violate("output-column-missing-or-wrong-length", f"frame {f_n}: {feat} -> {labs!r}")
                        continue
                    for v, lab, exp in zip(new[raw].tolist(), labs, expected[feat]):
                        if exp == ("nan",):
                            ok = is_missing(lab)
                            want = "NaN"
                        else:
                            pos = exp[1]
                            if pos is None:
                                ok, want = False, "a group (value belongs to none)"
                            elif pos in group_label[feat]:
                                want = group_label[feat][pos]
                                ok = values_equal(lab, want)
                            elif out_float:
                                want = float(pos)
                                ok = is_num(lab) and float(lab) == want
                            else:
                                want = "any fitted label"
                                ok = isinstance(lab, str)
                        if not ok:
                            kindtag = "quantitative" if spec["kind"] in ("continuous", "discrete") else "qualitative"
                            raw_leak = (not is_missing(lab)) and values_equal(lab, v) and not any(values_equal(lab, g) for g in group_label[feat].values())
                            out.violate(
                                f"{'raw-value-leaked' if raw_leak else 'label-differs-from-reference-group'}:{kindtag}",
                                f"frame {f_n}: {feat} value {v!r} -> {lab!r}, expected {want!r}; order {list(obj.values_orders[feat])!r}",
                            )
                            break
                # dropped / foreign columns untouched is C07/C08's subject
        if unseen_any and n > 0:
            out.nontrivial = True
    return out
