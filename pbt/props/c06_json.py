"""C06 — JSON save/load round trip preserves behaviour."""
import json

import numpy as np
import pandas as pd
from hypothesis import strategies as st

from core.outcome import Outcome, discard, observe
from gen.objects import CARVERS, EDIT_STRATEGY, PIPELINES, STEPS, apply_edits, fit_object, fitted_case, make_object
from gen.samples import build
from oracles.mapping import frames_equal, is_missing, is_num
from oracles.views import feature_views

PID = "C06"
RULE = (
    "Every fitted class on int64 / float64 / float32 / integer-valued-float / 1e15+k / 1e-300-scale / "
    "non-representable (k*0.1) quantitative values, str / int / float / numeric-string categories, missing "
    "values, MulticlassCarver's features_casting. Oracle: json.dumps(obj.to_json()) succeeds with the standard "
    "encoder; the object rebuilt by load_carver/load_discretizer from json.loads of it gives the same transform "
    "output (NaN-aware, value based) or the same exception type on: the training frame, the training frame "
    "upcast to float64, and a probe frame (every boundary, its float64 and float32 neighbours, extremes, unseen "
    "categories, missing values); same summary(); and serialising the reloaded object gives the same JSON "
    "(features compared as a set, the inner values_orders string parsed). Non-trivial: a numeric leader or "
    "numeric category is stored and a transform frame holds values unseen at fit."
)
BOUNDS = {"rows": "12-400", "features": "1-3"}
ASSUMPTIONS = ["the byte string is not compared (hash-ordered feature lists are representation only)"]
BUDGET = {"quick": 1400, "thorough": 30000}
DEADLINE_S = {"quick": 200, "thorough": 3300}
CLASSES = CARVERS + PIPELINES + STEPS + ("BinaryCarver", "ContinuousCarver", "Discretizer", "QuantitativeDiscretizer", "ChainedDiscretizer")
INF = float("inf")
POOLS = ["small_int", "dyadic", "half", "yyyymm", "big", "near", "tiny", "huge", "tenth", "tenth", "tenth"]
F32_OK = ("small_int", "dyadic", "half", "tenth")


def strategy(tier):
    @st.composite
    def build_case(draw):
        case = draw(fitted_case(CLASSES, quant_pools=POOLS))
        for f in case["features"]:
            if f["kind"] in ("continuous", "discrete"):
                choices = ["float64", "float64"]
                if f.get("pool") in F32_OK:
                    choices += ["float32", "float32"]
                if all(float(v).is_integer() for v in f["values"]) and all(r[-1] == 0 for r in f["train"]) and (f["dev"] is None or all(r[-1] == 0 for r in f["dev"])):
                    choices += ["int64"]
                f["dtype"] = draw(st.sampled_from(choices))
        case["probe_key"] = draw(st.integers(0, 7))
        # manually edited groups before saving (update_discretizer): [kind, feature selector, leader selector, flag]
        case["edits"] = draw(EDIT_STRATEGY)
        return case

    return build_case()


def normalise(dumped):
    doc = dict(dumped)
    doc["features"] = sorted(doc.get("features", []))
    if isinstance(doc.get("values_orders"), str):
        doc["values_orders"] = json.loads(doc["values_orders"])
    return doc


def probe_frame(obj, case, sample):
    """Boundaries and their neighbours (float64 and float32), extremes, unseen categories, missing."""
    cols = {}
    full_rows = sample.X.dropna()
    src = full_rows.iloc[0] if len(full_rows) else sample.X.iloc[0]
    kept = {raw: feat for feat, raw, _ in feature_views(obj, case)}
    lists = {}
    for col in sample.X.columns:
        spec = sample.specs[col]
        if col not in kept:
            lists[col] = [src[col]]
            continue
        order = obj.values_orders[kept[col]]
        if spec["kind"] in ("continuous", "discrete"):
            finite = [float(l) for l in order if not isinstance(l, str) and l != INF]
            pts = set(finite) | {0.0, 1e308, -1e308}
            for b in finite:
                pts |= {float(np.nextafter(b, INF)), float(np.nextafter(b, -INF))}
                b32 = np.float32(b)
                if np.isfinite(b32):
                    pts |= {float(b32), float(np.nextafter(b32, np.float32(INF))), float(np.nextafter(b32, np.float32(-INF)))}
            vals = sorted(p for p in pts if np.isfinite(p))
            if any(isinstance(l, str) for l in order):
                vals.append(np.nan)
            lists[col] = vals
        else:
            vals = [v for v in spec["values"]] + ["UNSEEN_zz"]
            if any(isinstance(m, str) and m == "__NAN__" for l in order for m in order.content.get(l, [])):
                vals.append(np.nan)
            lists[col] = vals
    n = max(len(v) for v in lists.values())
    for col, vals in lists.items():
        column = [vals[i % len(vals)] for i in range(n)]
        if sample.specs[col]["kind"] in ("continuous", "discrete"):
            cols[col] = pd.Series(column, dtype="float64")
        else:
            cols[col] = pd.Series(column, dtype=object)
    return pd.DataFrame(cols)


def same_behaviour(out, a, b, frame, what):
    ra = observe(a.transform, frame.copy())
    rb = observe(b.transform, frame.copy())
    if ra.ok != rb.ok:
        out.violate(f"reloaded-object-differs:one-raises:{what}", f"{what}: original {'ok' if ra.ok else repr(ra.exc)[:200]} vs reloaded {'ok' if rb.ok else repr(rb.exc)[:200]}")
        return
    if not ra.ok:
        if type(ra.exc) is not type(rb.exc):
            out.violate(f"reloaded-object-differs:exception-type:{what}", f"{what}: {ra.exc!r} vs {rb.exc!r}")
        return
    diff = frames_equal(ra.value, rb.value)
    if diff:
        out.violate(f"reloaded-object-differs:transform-output:{what}", f"{what}: {diff}")


def check_case(case) -> Outcome:
    out = Outcome()
    cfg = case["config"]
    cls = cfg["cls"]
    out.label(f"cls:{cls}")
    sample = build(case)
    obj = make_object(case)
    res = fit_object(obj, case, sample)
    if not res.ok:
        return discard(f"fit-raised:{res.exc_type}", out.labels)
    if not list(obj.features):
        return discard("no-feature-kept", out.labels)
    # ---- manual edits before saving
    ok, _, edit_labels = apply_edits(obj, case, case.get("edits", []))
    if not ok:
        return discard("edit-raised", out.labels)  # edits are C17's subject
    out.label(*edit_labels)
    dumped = observe(lambda: json.dumps(obj.to_json()))
    if not dumped.ok:
        out.violate(f"to_json-not-serialisable:{dumped.bucket()}", f"json.dumps(to_json()) raised {dumped.exc!r}")
        return out
    from AutoCarver import load_carver
    from AutoCarver.discretizers import load_discretizer

    loader = load_carver if cls in CARVERS else load_discretizer
    loaded = observe(loader, json.loads(dumped.value))
    if not loaded.ok:
        out.violate(f"load-raised:{loaded.bucket()}", f"{loader.__name__} raised {loaded.exc!r}")
        return out
    obj2 = loaded.value

    frames = {"train": sample.X}
    quant = [c for c in sample.X.columns if sample.specs[c]["kind"] in ("continuous", "discrete")]
    if any(str(sample.X[c].dtype) != "float64" for c in quant):
        up = sample.X.copy()
        for c in quant:
            up[c] = up[c].astype("float64")
        frames["train-as-float64"] = up
        out.label("non-float64-column")
    frames["probe"] = probe_frame(obj, case, sample)
    for what, frame in frames.items():
        same_behaviour(out, obj, obj2, frame, what)

    s1, s2 = observe(obj.summary), observe(obj2.summary)
    if s1.ok != s2.ok:
        out.violate("reloaded-object-differs:summary-raises", f"summary: {s1.exc!r} vs {s2.exc!r}")
    elif s1.ok:
        a = s1.value.reset_index().astype(str).values.tolist()
        b = s2.value.reset_index().astype(str).values.tolist()
        if a != b:
            out.violate("reloaded-object-differs:summary", f"summary differs: {a[:3]} vs {b[:3]}")

    again = observe(lambda: json.loads(json.dumps(obj2.to_json())))
    if not again.ok:
        out.violate(f"reloaded-to_json-raised:{again.bucket()}", f"to_json of the reloaded object raised {again.exc!r}")
    else:
        first, second = normalise(json.loads(dumped.value)), normalise(again.value)
        if first != second:
            keys = sorted(k for k in set(first) | set(second) if first.get(k) != second.get(k))
            out.violate(f"re-serialised-json-differs:{'+'.join(keys)}", f"keys differing: {keys}; e.g. {str(first.get(keys[0]))[:200]} vs {str(second.get(keys[0]))[:200]}")

    numeric_stored = any(
        is_num(m) for f in obj.features for l in obj.values_orders[f] for m in obj.values_orders[f].content.get(l, []) if not (isinstance(m, float) and m == INF)
    )
    out.nontrivial = numeric_stored
    for f in case["features"]:
        if f.get("dtype"):
            out.label(f"dtype:{f['dtype']}")
        if f.get("pool"):
            out.label(f"pool:{f['pool']}")
    return out


def extra_run(tier, seed_value, findings):
    """Thorough tier: coverage-guided fuzzing (atheris) of the serialisation core
    (json_serialize_values_orders / json_deserialize_values_orders) with a round-trip oracle."""
    if tier != "thorough":
        return {"evaluations": 0, "coverage": {"coverage_guided_part": {"runs": 0, "note": "thorough tier only"}}}
    from fuzz import driver

    fuzz = driver.run("c06", seed_value, runs=400000, jobs=4)
    violations = [(sig, msg, case) for sig, msg, case in fuzz["violations"] if not findings.match_open(PID, sig)]
    return {"evaluations": fuzz["evaluations"], "violations": violations, "classes": {"atheris_runs": fuzz["evaluations"]},
            "coverage": {"coverage_guided_part": {"runs": fuzz["evaluations"], "note": fuzz["note"]}}}
