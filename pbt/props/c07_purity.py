"""C07 — fit/transform coherence, row-wise purity and absence of side effects."""
import json
import random

import numpy as np
import pandas as pd
from hypothesis import strategies as st

from core.outcome import Outcome, discard, observe
from gen.objects import CARVERS, PIPELINES, STEPS, fitted_case, make_object
from gen.samples import build
from oracles.mapping import frames_equal, is_missing, snapshot
from oracles.views import feature_views

PID = "C07"
RULE = (
    "Histories as data: one fitted object (every class, copy in {True, False}, every index style) and 1-12 "
    "transform calls interleaved over a pool of frames: the training frame, a row subset, the rows without missing values, a permutation, a "
    "re-indexed copy (offset ints / strings), the dev frame, and a 'cross' frame whose qualitative cells are "
    "partly replaced by other columns' values / unseen tokens with a pass-through column holding the same tokens, "
    "plus a subset of it. Oracle: (1) fit_transform == fit then transform on two fresh objects; (2) transform of "
    "a subset / permutation / re-indexing equals the corresponding rows of the full result (when the full frame is "
    "accepted); (3) after every call: same result as the first call on that frame, to_json / values_orders "
    "unchanged, output index == input index, input columns kept in order, non-feature columns untouched; (4) with "
    "copy=True deep snapshots of X, y, X_dev, y_dev taken before fit and before each transform are unchanged. "
    "Non-trivial: >= 2 transforms on >= 2 different frames, one of them a strict subset."
)
BOUNDS = {"rows": "12-400", "steps": "1-12"}
ASSUMPTIONS = ["no side-effect claim is made for copy=False (the package documents in-place work)"]
BUDGET = {"quick": 900, "thorough": 15000}
DEADLINE_S = {"quick": 220, "thorough": 3300}
CLASSES = CARVERS + PIPELINES + STEPS + ("BinaryCarver", "ContinuousCarver", "Discretizer", "ChainedDiscretizer")
FRAMES = ["train", "subset", "complete_rows", "perm", "reindex", "dev", "cross", "cross_subset"]


def strategy(tier):
    return st.tuples(
        fitted_case(CLASSES),
        st.lists(st.sampled_from(FRAMES), min_size=1, max_size=12),
        st.lists(st.integers(0, 10**6), min_size=1, max_size=40),
        st.integers(0, 10**6),
        st.sampled_from(["offset", "str"]),
    ).map(lambda t: dict(t[0], steps=t[1], rows=t[2], fkey=t[3], reindex=t[4]))


def fit_call(obj, case, sample, X, y, X_dev, y_dev, method="fit"):
    fn = getattr(obj, method)
    if case["config"]["cls"] in CARVERS and X_dev is not None:
        return observe(fn, X, y, X_dev=X_dev, y_dev=y_dev)
    return observe(fn, X, y)


def state_of(obj):
    dumped = observe(lambda: json.dumps(obj.to_json(), sort_keys=True, default=str))
    orders = {f: (list(map(repr, o)), {repr(k): list(map(repr, v)) for k, v in o.content.items()}) for f, o in obj.values_orders.items()}
    return (dumped.value if dumped.ok else repr(dumped.exc), orders)


def make_frames(case, sample, obj):
    X = sample.X.copy()
    X["extra_col"] = [f"e{i}" for i in range(len(X))]
    n = len(X)
    rows = []
    for r in case["rows"]:
        if r % n not in rows:
            rows.append(r % n)
    frames = {"train": X, "subset": X.iloc[rows]}
    complete = X.dropna()
    if 0 < len(complete) < n:
        frames["complete_rows"] = complete  # the rows without any missing value: the frame itself has none
    perm = list(range(n))
    random.Random(case["fkey"]).shuffle(perm)
    frames["perm"] = X.iloc[perm]
    re = X.copy()
    re.index = pd.Index([10**6 + 3 * i for i in range(n)]) if case["reindex"] == "offset" else pd.Index([f"k{i}" for i in range(n)], dtype=object)
    frames["reindex"] = re
    if sample.X_dev is not None:
        dev = sample.X_dev.copy()
        dev["extra_col"] = [f"d{i}" for i in range(len(dev))]
        frames["dev"] = dev
    # cross frame: qualitative cells replaced by tokens that are known values of other columns / unseen
    quali = [c for c in sample.X.columns if sample.specs[c]["kind"] in ("ordinal", "categorical")]
    if quali:
        rng = random.Random(case["fkey"] + 1)
        tokens = ["UNSEEN_tok"]
        for c in quali:
            tokens += [v for v in sample.specs[c]["values"] if isinstance(v, str)][:3]
        cross = X.iloc[: min(n, 30)].copy()
        for c in quali:
            col = cross[c].astype(object).tolist()
            for i in range(len(col)):
                if rng.random() < 0.25:
                    col[i] = rng.choice(tokens)
            cross[c] = pd.Series(col, index=cross.index, dtype=object)
        cross["extra_col"] = [rng.choice(tokens) for _ in range(len(cross))]
        frames["cross"] = cross
        keep = [i for i in range(len(cross)) if (case["rows"][i % len(case["rows"])] + i) % 2 == 0] or [0]
        frames["cross_subset"] = cross.iloc[keep]
    return frames


def check_case(case) -> Outcome:
    out = Outcome()
    cfg = case["config"]
    cls = cfg["cls"]
    copy_flag = cfg.get("copy", False)
    out.label(f"cls:{cls}", f"copy:{copy_flag}", f"index:{case['index']}")
    sample = build(case)

    # ---- (1) fit_transform == fit + transform, (4) no side effect of fit with copy=True
    a, b = make_object(case), make_object(case)
    Xa, ya = sample.X.copy(), sample.y.copy()
    Xd = sample.X_dev.copy() if sample.X_dev is not None else None
    yd = sample.y_dev.copy() if sample.y_dev is not None else None
    before = (snapshot(Xa), snapshot(ya), snapshot(Xd), snapshot(yd))
    ra = fit_call(a, case, sample, Xa, ya, Xd, yd, "fit_transform")
    if copy_flag and (snapshot(Xa), snapshot(ya), snapshot(Xd), snapshot(yd)) != before:
        which = [n for n, x, s in zip(["X", "y", "X_dev", "y_dev"], (Xa, ya, Xd, yd), before) if snapshot(x) != s]
        out.violate(f"fit_transform-modified-inputs-with-copy:{'+'.join(which)}", f"{cls}: fit_transform changed {which} although copy=True")
    Xb, yb = sample.X.copy(), sample.y.copy()
    Xbd = sample.X_dev.copy() if sample.X_dev is not None else None
    ybd = sample.y_dev.copy() if sample.y_dev is not None else None
    rb = fit_call(b, case, sample, Xb, yb, Xbd, ybd, "fit")
    if copy_flag and rb.ok and (snapshot(Xb), snapshot(yb), snapshot(Xbd), snapshot(ybd)) != before:
        which = [n for n, x, s in zip(["X", "y", "X_dev", "y_dev"], (Xb, yb, Xbd, ybd), before) if snapshot(x) != s]
        out.violate(f"fit-modified-inputs-with-copy:{'+'.join(which)}", f"{cls}: fit changed {which} although copy=True")
    if ra.ok != rb.ok:
        out.violate("fit_transform-and-fit-disagree-on-acceptance", f"fit_transform: {'ok' if ra.ok else repr(ra.exc)[:150]}; fit: {'ok' if rb.ok else repr(rb.exc)[:150]}")
        return out
    if not rb.ok:
        return discard(f"fit-raised:{rb.exc_type}", out.labels)
    obj = b
    if not list(obj.features):
        return discard("no-feature-kept", out.labels)
    tb = observe(obj.transform, sample.X.copy())
    if not tb.ok:
        out.violate(f"transform-train-raised:{tb.bucket()}", f"transform(X_train) raised {tb.exc!r}")
        return out
    diff = frames_equal(ra.value, tb.value)
    if diff:
        out.violate("fit_transform-differs-from-fit-then-transform", f"{cls}: {diff}")

    # ---- histories of transform calls
    frames = make_frames(case, sample, obj)
    feats = list(obj.features)
    state0 = state_of(obj)
    first = {}
    used = []
    for step, name in enumerate(case["steps"]):
        if name not in frames:
            continue
        frame = frames[name]
        arg = frame.copy()
        snap = snapshot(arg)
        res = observe(obj.transform, arg)
        used.append(name)
        where = f"step {step} transform({name})"
        if copy_flag and snapshot(arg) != snap:
            out.violate("transform-modified-input-with-copy", f"{where}: the input frame was modified although copy=True")
        if state_of(obj) != state0:
            out.violate("transform-changed-fitted-state", f"{where}: to_json()/values_orders changed")
            return out
        key = name
        if key in first:
            prev = first[key]
            if prev.ok != res.ok or (res.ok and frames_equal(prev.value, res.value)) or (not res.ok and type(prev.exc) is not type(res.exc)):
                out.violate("repeated-transform-differs", f"{where}: differs from the first call on the same frame ({'ok' if prev.ok else repr(prev.exc)[:100]} vs {'ok' if res.ok else repr(res.exc)[:100]})")
                return out
        else:
            first[key] = res
        if not res.ok:
            if name in ("train", "subset", "complete_rows", "perm", "reindex", "dev"):
                out.violate(f"transform-of-accepted-data-raised:{name}:{res.bucket()}", f"{where}: raised {res.exc!r}")
                return out
            if not isinstance(res.exc, AssertionError):
                out.violate(f"transform-raised-non-assertion:{name}:{res.bucket()}", f"{where}: raised {res.exc!r}")
                return out
            continue
        result = res.value
        if list(result.index) != list(frame.index):
            out.violate("output-index-differs-from-input", f"{where}: index {list(result.index)[:5]} vs {list(frame.index)[:5]}")
            return out
        in_cols = [c for c in result.columns if c in frame.columns]
        extra = [c for c in result.columns if c not in frame.columns]
        if in_cols != list(frame.columns) or any(c not in feats for c in extra):
            out.violate("output-columns-differ-from-input", f"{where}: input {list(frame.columns)} output {list(result.columns)} features {feats}")
            return out
        untouched = [c for c in frame.columns if c not in feats]
        diff = frames_equal(frame[untouched], result[untouched])
        if diff:
            out.violate("non-feature-column-modified", f"{where}: {diff}")
            return out
        # purity against the full frame's result
        base_name = {"subset": "train", "complete_rows": "train", "perm": "train", "reindex": "train", "cross_subset": "cross"}.get(name)
        if base_name:
            if base_name not in first:
                first[base_name] = observe(obj.transform, frames[base_name].copy())
            full = first[base_name]
            if full.ok:
                if name == "reindex":
                    expect = full.value.copy()
                    expect.index = frame.index
                else:
                    expect = full.value.loc[frame.index]
                diff = frames_equal(expect[feats + untouched], result[feats + untouched])
                if diff:
                    out.violate(f"row-wise-purity-broken:{name}", f"{where}: rows differ from the full frame's result: {diff}")
                    return out
    distinct = set(used)
    out.nontrivial = len(used) >= 2 and len(distinct) >= 2 and bool(distinct & {"subset", "complete_rows", "cross_subset"})
    for name in distinct:
        out.label(f"frame:{name}")
    return out
