"""C08 — fit ends in a coherent fitted object or a clean AssertionError."""
from hypothesis import strategies as st

from core.outcome import Outcome, observe
from gen.objects import CARVERS, KINDS, MIN_FREQS, PIPELINES, STEPS, fit_object, make_object, target_kinds_for
from gen.samples import ORD_POOL, STR_POOL, apportion, build, carver_config, feature_spec, quant_values, target_spec
from oracles.mapping import content_of, eq, frames_equal, is_missing, ref_group
from oracles.views import feature_views, raw_feature

PID = "C08"
RULE = (
    "Well-formed but hostile samples: every class (3 carvers, 3 pipelines, 4 single-step discretizers) and "
    "parameter set on frames mixing ordinary table-first features with degenerate shapes: constant, "
    "all-missing, one value + missing, near-unique ids (numeric and string, the numeric ones also in qualitative columns of object or native dtype), many equally rare discrete "
    "values just under 1/q (quantile-collision shape), heavy spikes, 2-12 row samples, feature observed in a "
    "single target class only. Oracle: fit returns or raises AssertionError (any other exception = violation, "
    "bucketed by type and innermost package frame); after success every per-feature attribute refers to "
    "exactly the kept features, each values_orders entry is a well-formed ordered partition covering every "
    "training value, summary() lists exactly the features, histories of dropped features end with "
    "'removed', transform(X) succeeds and leaves dropped and foreign columns untouched. Non-trivial: the "
    "sample has a degenerate-shape feature and fit completed or raised inside the package."
)
BOUNDS = {"rows": "2-400", "features": "1-4"}
ASSUMPTIONS = [
    "quantitative columns hold finite numbers or NaN, qualitative columns strings/numbers, targets are valid for the class",
    "a history entry of a dropped feature terminated by {'removed': True} is accepted (the package keeps it on purpose)",
]
BUDGET = {"quick": 1600, "thorough": 100000}
DEADLINE_S = {"quick": 200, "thorough": 3300}
ALL_CLASSES = CARVERS + PIPELINES + STEPS
HOSTILE = ("constant", "all_missing", "one_plus_missing", "ids", "equally_rare", "one_class_only", "big_spike")
STR_NAN, STR_DEFAULT = "__NAN__", "__OTHER__"


@st.composite
def hostile_feature(draw, name, kind, blocks, shape, numeric_ok=True):
    """A feature table with a degenerate shape; same format as gen.samples.feature_spec."""
    total = sum(blocks)
    quantitative = kind in ("continuous", "discrete")
    spec = {"name": name, "kind": kind, "shape": shape}
    # numeric codes / identifiers in a qualitative column (object or native numeric dtype)
    numeric = draw(st.sampled_from(["str", "str", "ints", "floats"])) if (kind == "categorical" and numeric_ok) else "str"

    def vals(n):
        if quantitative:
            return quant_values(draw(st.sampled_from(["small_int", "dyadic", "half"])), n, draw(st.integers(-5, 5)), 1)
        if kind == "ordinal":
            pool = ORD_POOL + [f"lvl{i}" for i in range(max(0, n - len(ORD_POOL)))]
            return list(draw(st.permutations(pool[: max(n, 2)])))[:n]
        if numeric == "ints":
            return [i - 2 for i in range(n)]
        if numeric == "floats":
            return [i / 2 - 1 for i in range(n)]
        pool = [v for v in STR_POOL if v] + [f"id{i}" for i in range(max(0, n))]
        return pool[:n] if shape == "ids" else list(draw(st.permutations(pool[: max(n, 12)])))[:n]

    if shape == "constant":
        values = vals(2)
        table = [[b, 0, 0] for b in blocks]
    elif shape == "all_missing":
        values = vals(2)
        table = [[0, 0, b] for b in blocks]
    elif shape == "one_plus_missing":
        values = vals(2)
        table = [apportion([draw(st.integers(1, 5)), 0, draw(st.integers(1, 5))], b) for b in blocks]
    elif shape == "ids":
        n_mod = total if kind != "ordinal" else min(total, 30)
        values = vals(n_mod)
        table, nxt = [], 0
        for b in blocks:
            row = [0] * (len(values) + 1)
            for _ in range(b):
                row[nxt % len(values)] += 1
                nxt += 1
            table.append(row)
    elif shape == "equally_rare":
        n_mod = draw(st.integers(4, 14))
        values = vals(n_mod)
        base = draw(st.lists(st.sampled_from([1, 1, 1, 2, 2, 3, 4, 6, 10, 15]), min_size=n_mod, max_size=n_mod))
        table = []
        for b in blocks:
            jitter = draw(st.lists(st.sampled_from([0, 0, 1]), min_size=n_mod, max_size=n_mod))
            table.append(apportion([w * 3 + j for w, j in zip(base, jitter)] + [draw(st.sampled_from([0, 0, 0, 2, 6]))], b))
    elif shape == "one_class_only":
        n_mod = draw(st.integers(2, 6))
        values = vals(n_mod)
        only = draw(st.integers(0, len(blocks) - 1))
        table = []
        for i, b in enumerate(blocks):
            if i == only:
                table.append(apportion(draw(st.lists(st.sampled_from([1, 2, 3]), min_size=n_mod, max_size=n_mod)) + [0], b))
            else:
                table.append([0] * n_mod + [b])
    else:  # big_spike
        n_mod = draw(st.integers(3, 12))
        values = vals(n_mod)
        spike = draw(st.integers(0, n_mod - 1))
        table = []
        for b in blocks:
            ws = draw(st.lists(st.sampled_from([0, 1, 1, 2]), min_size=n_mod, max_size=n_mod))
            ws[spike] = 40
            table.append(apportion(ws + [draw(st.sampled_from([0, 0, 3]))], b))
    values = list(values)
    spec["values"] = values
    if kind == "ordinal":
        spec["ranking"] = list(values)
    if kind == "categorical":
        spec["flavour"] = numeric
        if numeric != "str" and draw(st.booleans()):
            spec["dtype"] = "native"
    if quantitative:
        spec["pool"] = "hostile"
    spec["train"] = table
    spec["dev"] = None
    return spec


@st.composite
def strategy_case(draw):
    cls = draw(st.sampled_from(list(ALL_CLASSES)))
    target = draw(target_spec(kinds=target_kinds_for(cls)))
    if draw(st.integers(0, 4)) == 0:  # tiny sample
        lo = 1
        target["blocks"] = [draw(st.integers(lo, 4)) for _ in target["blocks"]]
    blocks = target["blocks"]
    kinds = KINDS[cls]
    n_feat = draw(st.integers(1, 4))
    features = []
    for i in range(n_feat):
        kind = draw(st.sampled_from(list(kinds)))
        prefix = {"continuous": "q", "discrete": "d", "ordinal": "o", "categorical": "c"}[kind]
        name = f"{prefix}{i}"
        if draw(st.integers(0, 2)) > 0:
            shape = draw(st.sampled_from(HOSTILE))
            features.append(draw(hostile_feature(name, kind, blocks, shape, numeric_ok=cls != "CategoricalDiscretizer")))
        else:
            spec = draw(feature_spec(name, kind, blocks, "none", None, ordinal_numeric=cls != "OrdinalDiscretizer"))
            if cls == "CategoricalDiscretizer" and spec.get("flavour") in ("ints", "floats", "mixed", "flags", "bools"):
                spec["values"] = [f"v{n}" for n, _ in enumerate(spec["values"])]
                spec["flavour"] = "str"
            features.append(spec)
    case = {
        "target": target,
        "dev_blocks": None,
        "features": features,
        "key": draw(st.integers(0, 2**20)),
        "index": draw(st.sampled_from(["range", "range", "offset", "shuffled", "str"])),
    }
    if cls in CARVERS:
        cfg = carver_config(draw, target["kind"])
    else:
        cfg = {"min_freq": draw(st.sampled_from(MIN_FREQS)), "copy": draw(st.booleans())}
    cfg["cls"] = cls
    cfg["n_jobs"] = 1
    case["config"] = cfg
    return case


def strategy(tier):
    return strategy_case()


def well_formed(order, feat):
    """Ordered partition: unique leaders, list == content keys, disjoint groups, leader in own group."""
    leaders = list(order)
    keys = list(order.content)
    for i, a in enumerate(leaders):
        for b in leaders[i + 1 :]:
            if eq(a, b):
                return ("duplicate-leaders", f"{feat}: leaders {leaders!r}")
    if len(keys) != len(leaders) or any(not any(eq(k, l) for l in leaders) for k in keys):
        return ("content-keys-differ-from-list", f"{feat}: list {leaders!r} vs content keys {keys!r}")
    seen = []
    for l in leaders:
        members = content_of(order, l)
        if not any(eq(l, m) for m in members):
            return ("leader-not-in-own-group", f"{feat}: leader {l!r} members {members!r}")
        for m in members:
            if any(eq(m, s) for s in seen):
                return ("groups-not-disjoint", f"{feat}: value {m!r} in two groups; content {dict(order.content)!r}")
            seen.append(m)
    return None


def check_case(case) -> Outcome:
    out = Outcome()
    cfg = case["config"]
    cls = cfg["cls"]
    out.label(f"cls:{cls}")
    shapes = [f.get("shape") for f in case["features"] if f.get("shape")]
    for s in shapes:
        out.label(f"shape:{s}")
    sample = build(case)
    X = sample.X.copy()
    X["extra_col"] = list(range(len(X)))
    made = observe(make_object, case)
    if not made.ok:
        if isinstance(made.exc, AssertionError):
            out.label("init-refused")
            return out
        out.violate(f"init-raised:{made.bucket()}", f"constructor raised {made.exc!r}")
        return out
    obj = made.value
    res = fit_object(obj, case, sample, X=X)
    out.nontrivial = bool(shapes)
    if not res.ok:
        if isinstance(res.exc, AssertionError):
            out.label("fit-refused-with-AssertionError")
            return out
        if res.frame == "outside-package":
            # raised outside the package without passing through it: harness problem, not behaviour
            raise res.exc
        out.violate(f"fit-raised:{res.bucket()}", f"{cls}.fit raised {res.exc!r} (innermost package frame {res.frame})")
        return out
    out.label("fit-completed")

    feats = list(obj.features)
    fset = set(feats)
    if len(fset) != len(feats):
        out.violate("duplicate-features", f"features {feats!r}")
    attrs = {
        "values_orders": set(obj.values_orders),
        "input_dtypes": set(obj.input_dtypes),
        "labels_per_values": set(obj.labels_per_values),
        "features_dropna": set(obj.features_dropna),
    }
    for name, keys in attrs.items():
        if keys != fset:
            out.violate(f"attribute-not-restricted-to-kept-features:{name}", f"{cls}: features {sorted(fset)} but {name} has {sorted(keys)}")
    if set(obj.qualitative_features) | set(obj.quantitative_features) != fset or (set(obj.qualitative_features) & set(obj.quantitative_features)):
        out.violate("feature-type-lists-incoherent", f"{cls}: features {sorted(fset)} quali {obj.qualitative_features} quanti {obj.quantitative_features}")
    if cls != "MulticlassCarver" and hasattr(obj, "ordinal_features") and not set(obj.ordinal_features) <= fset:
        out.violate("ordinal-features-not-restricted", f"{cls}: ordinal {obj.ordinal_features} vs features {sorted(fset)}")
    dropped = [f["name"] for f in case["features"] if not any(raw_feature(case, k)[0] == f["name"] for k in feats)]
    if dropped:
        out.label("feature-dropped")

    if feats:
        summ = observe(obj.summary)
        if not summ.ok:
            out.violate(f"summary-raised:{summ.bucket()}", f"summary() raised {summ.exc!r}")
        else:
            listed = set(summ.value.index.get_level_values("feature"))
            if listed != fset:
                out.violate("summary-features-differ", f"summary lists {sorted(listed)} vs features {sorted(fset)}")
    if cls in CARVERS:
        hist = obj._history if isinstance(getattr(obj, "_history", None), dict) else {}
        for f in feats:
            if f not in hist or not hist[f] or hist[f][-1].get("removed"):
                out.violate("kept-feature-without-history", f"{f}: history {str(hist.get(f))[:200]}")
        for f, records in hist.items():
            if f not in fset and not (records and records[-1].get("removed")):
                out.violate("history-of-dropped-feature-not-terminated", f"{f}: not in features but history does not end with removed")
        hres = observe(obj.history)
        if not hres.ok:
            out.violate(f"history-raised:{hres.bucket()}", f"history() raised {hres.exc!r}")

    for feat, raw, spec in feature_views(obj, case):
        order = obj.values_orders[feat]
        bad = well_formed(order, feat)
        if bad:
            out.violate(f"values_orders-malformed:{bad[0]}", bad[1])
            continue
        quantitative = spec["kind"] in ("continuous", "discrete")
        for v in set(sample.X[raw].dropna().tolist()) | ({None} if sample.X[raw].isna().any() else set()):
            pos, _ = ref_group(order, v, quantitative, STR_NAN)
            if pos is None:
                out.violate("training-value-not-covered", f"{feat}: training value {v!r} in no group of {list(order)!r}")
                break

    tr = observe(obj.transform, X.copy())
    if not tr.ok:
        out.violate(f"transform-of-training-data-raised:{tr.bucket()}", f"{cls}.transform(X_train) raised {tr.exc!r}")
        return out
    untouched = [c for c in X.columns if c not in fset]
    missing_cols = [c for c in untouched if c not in tr.value.columns]
    if missing_cols:
        out.violate("non-feature-column-lost", f"columns {missing_cols} missing from transform output (features {sorted(fset)})")
    else:
        diff = frames_equal(X[untouched], tr.value[untouched])
        if diff:
            out.violate("non-feature-column-modified", f"dropped/foreign columns changed by transform: {diff}")
    return out
