"""C09 — base discretization honours min_freq and keeps its granularity."""
from collections import Counter
from fractions import Fraction

from hypothesis import strategies as st

from core.outcome import Outcome, discard
from gen.objects import fit_object, fitted_case, make_object
from gen.samples import build
from oracles.mapping import content_of, eq, group_counts, is_missing
from oracles.views import canonical_str, feature_views

PID = "C09"
RULE = (
    "Table-first samples (12-400 rows; continuous, discrete, spiked, tied columns, ordinal rankings with "
    "never-observed levels, categorical columns incl. numeric-valued ones; with/without missing values) x "
    "Discretizer / QuantitativeDiscretizer / QualitativeDiscretizer / ContinuousDiscretizer / "
    "OrdinalDiscretizer / CategoricalDiscretizer x min_freq in {.02,.05,.1,.12,.15,.2,.25,.3,.4,.5}. Oracle: "
    "exact bucket counts recomputed from values_orders with the reference mapping: ordinal buckets >= min_freq, "
    "quantitative buckets >= min_freq/2 (unless one remains), categorical value in default group iff rarer "
    "than min_freq, missing values a separate modality; ContinuousDiscretizer boundaries strictly increasing "
    "observed values + inf, every value with frequency >= min_freq a boundary, buckets without such a value "
    "<= 2.5*min_freq. Non-trivial: >= 2 buckets and some merging happened."
)
BOUNDS = {"rows": "12-400", "features": "1-3"}
ASSUMPTIONS = [
    "frequencies are compared exactly (count/n as Fraction against the decimal value of min_freq); with n <= 400 this agrees with the package's float comparisons",
    "a feature dropped by the discretizer (most frequent value rarer than min_freq) is not judged",
]
BUDGET = {"quick": 6000, "thorough": 200000}
DEADLINE_S = {"quick": 200, "thorough": 3300}
CLASSES = (
    "Discretizer", "Discretizer", "QuantitativeDiscretizer", "QualitativeDiscretizer",
    "ContinuousDiscretizer", "OrdinalDiscretizer", "CategoricalDiscretizer",
)
EPS = 1e-12


def dec(x) -> Fraction:
    """Exact value of a threshold as the user wrote it (0.1 means 1/10): count/n compared in exact
    arithmetic agrees with the package's float comparison because n <= 400."""
    return Fraction(repr(x))
STR_NAN, STR_DEFAULT = "__NAN__", "__OTHER__"


def strategy(tier):
    return fitted_case(CLASSES)


def check_case(case) -> Outcome:
    out = Outcome()
    cfg = case["config"]
    cls = cfg["cls"]
    min_freq = cfg["min_freq"]
    out.label(f"cls:{cls}", f"min_freq:{min_freq}")
    sample = build(case)
    obj = make_object(case)
    res = fit_object(obj, case, sample)
    if not res.ok:
        return discard(f"fit-raised:{res.exc_type}", out.labels)
    n = len(sample.X)
    for feat, raw, spec in feature_views(obj, case):
        order = obj.values_orders[feat]
        raws = sample.X[raw].tolist()
        kind = spec["kind"]
        quantitative = kind in ("continuous", "discrete")
        has_missing = any(is_missing(v) for v in raws)
        leaders = list(order)
        non_nan = [l for l in leaders if not (isinstance(l, str) and l == STR_NAN)]

        # missing values always remain a separate modality (Discretizer family never merges them)
        nan_leader = [l for l in leaders if isinstance(l, str) and l == STR_NAN]
        if has_missing:
            if len(nan_leader) != 1 or [m for m in content_of(order, STR_NAN)] != [STR_NAN]:
                out.violate(f"missing-not-own-modality:{kind}", f"{feat}: column has missing values but order is {leaders!r} / nan content {content_of(order, STR_NAN)!r}")
        elif nan_leader:
            out.violate(f"nan-modality-without-missing-values:{kind}", f"{feat}: no missing value in the column but {STR_NAN} is in {leaders!r}")

        counts = group_counts(order, raws, quantitative, STR_NAN)
        if None in counts:
            out.violate(f"training-value-without-group:{kind}", f"{feat}: {counts[None]} training rows belong to no group of {leaders!r}")
            continue
        merged = False

        if quantitative:
            finite = [l for l in non_nan if l != float("inf")]
            values = Counter(float(v) for v in raws if not is_missing(v))
            if not non_nan or non_nan[-1] != float("inf"):
                out.violate("quantitative-last-boundary-not-inf", f"{feat}: boundaries {non_nan!r}")
            if any(b >= a for b, a in zip(finite, finite[1:])):
                out.violate("boundaries-not-strictly-increasing", f"{feat}: boundaries {non_nan!r}")
                continue
            if any(float(b) not in values for b in finite):
                out.violate("boundary-not-an-observed-value", f"{feat}: boundaries {finite!r} not all observed")
            merged = len(values) > len(non_nan)
            if cls == "ContinuousDiscretizer":
                q = round(1 / min_freq)
                frequent = {v for v, c in values.items() if Fraction(c, n) >= dec(min_freq)}
                for v in sorted(frequent):
                    if v not in finite:
                        f = values[v] / n
                        gap = f < 1 / q
                        out.violate(
                            "frequent-value-not-a-boundary:" + ("rounding-gap[min_freq,1/round(1/min_freq))" if gap else "above-1/q"),
                            f"{feat}: value {v!r} has frequency {f:.4f} >= min_freq={min_freq} but boundaries are {non_nan!r}",
                        )
                        break
                lower = float("-inf")
                for pos, b in enumerate(non_nan):
                    inside = [v for v in values if lower < v <= b]
                    share = sum(values[v] for v in inside) / n
                    if not any(v in frequent for v in inside) and Fraction(sum(values[v] for v in inside), n) > Fraction(5, 2) * dec(min_freq):
                        out.violate("bucket-larger-than-2.5-min_freq", f"{feat}: bucket ({lower}, {b}] holds {share:.4f} of the rows, min_freq={min_freq}, boundaries {non_nan!r}")
                        break
                    lower = b
            if cls in ("Discretizer", "QuantitativeDiscretizer") and len(non_nan) > 1:
                for pos, b in enumerate(leaders):
                    if isinstance(b, str):
                        continue
                    share = counts.get(pos, 0) / n
                    if Fraction(counts.get(pos, 0), n) < dec(min_freq) / 2:
                        out.violate("quantitative-bucket-below-min_freq/2", f"{feat}: bucket #{pos} (<= {b!r}) holds {share:.4f} < {min_freq / 2}; boundaries {non_nan!r}")
                        break
        elif kind == "ordinal":
            merged = any(len([m for m in content_of(order, l)]) > 1 for l in non_nan)
            if len(non_nan) > 1:
                for pos, l in enumerate(leaders):
                    if l in nan_leader:
                        continue
                    share = counts.get(pos, 0) / n
                    if Fraction(counts.get(pos, 0), n) == dec(min_freq):
                        out.label("ordinal-bucket-exactly-at-min_freq")
                    if Fraction(counts.get(pos, 0), n) < dec(min_freq):
                        out.violate("ordinal-bucket-below-min_freq", f"{feat}: bucket {l!r} holds {share:.4f} < {min_freq}; order {leaders!r} content {dict(order.content)!r}")
                        break
            if len(non_nan) < len(spec["ranking"]):
                out.label("ordinal-merged")
        elif kind == "categorical" and cls != "StringDiscretizer":
            forms = Counter(v if isinstance(v, str) else canonical_str(v) for v in raws if not is_missing(v))
            default_members = [m for m in content_of(order, STR_DEFAULT) if isinstance(m, str) and m != STR_DEFAULT]
            has_default = any(isinstance(l, str) and l == STR_DEFAULT for l in leaders)
            rare = {v for v, c in forms.items() if Fraction(c, n) < dec(min_freq)}
            if any(Fraction(c, n) == dec(min_freq) for c in forms.values()):
                out.label("category-exactly-at-min_freq")
            for v in forms:
                in_default = any(eq(v, m) for m in default_members)
                if (v in rare) != in_default:
                    falsy = " (falsy value)" if not v else ""
                    out.violate(
                        "categorical-default-group-iff-rare" + (":falsy-category" if not v else ""),
                        f"{feat}: value {v!r}{falsy} has frequency {forms[v] / n:.4f} (min_freq={min_freq}) but in_default={in_default}; order {leaders!r}",
                    )
                    break
            if has_default and not default_members:
                out.violate("empty-default-group", f"{feat}: {STR_DEFAULT} present without members: {leaders!r}")
            merged = has_default
            if rare:
                out.label("categorical-rare-values")
        if len(non_nan) >= 2 and merged:
            out.nontrivial = True
        if has_missing:
            out.label("has-missing")
    if not list(obj.features):
        out.label("no-feature-kept")
    return out
