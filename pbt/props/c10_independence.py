"""C10 — features are processed independently; parallel equals sequential."""
import atexit
import json
import os
import subprocess
import sys

from hypothesis import strategies as st

from core.bootstrap import HarnessError
from core.outcome import Outcome, discard
from gen.objects import fitted_case
from gen.samples import WITH_BOOLS

PID = "C10"
RULE = (
    "Frames with 2-5 features of mixed kinds (incl. id-like features that the discretizer drops) and, for each, "
    "5-8 variants executed in persistent worker processes started with PYTHONHASHSEED in {0,1,2,7,31337} (quick: "
    "three of them): the reference (all features, n_jobs=1), single-feature and subset fits, permuted feature "
    "lists, permuted DataFrame columns, n_jobs in {2,3} through a harness-owned Pool shim (tasks run on pickled "
    "copies, Hypothesis-chosen execution and completion order) and, for a share of the cases, the real "
    "multiprocessing.Pool. Oracle (differential): for every feature all variants agree on kept/dropped, on "
    "values_orders[f] (order and content) and on transform(X)[f]. Non-trivial: >= 3 features of >= 2 kinds, a "
    "dropped feature or merged group, and >= 2 distinct internal feature iteration orders observed."
)
BOUNDS = {"rows": "12-400", "features": "2-5", "variants": "5-8", "hash_seeds": [0, 1, 2, 7, 31337]}
ASSUMPTIONS = [
    "OS scheduling of the real pool is only sampled; every completion order is reachable through the shim",
    "hash seeds are sampled (5 values), the number of distinct feature iteration orders seen is reported as a class",
]
BUDGET = {"quick": 260, "thorough": 6000}
DEADLINE_S = {"quick": 230, "thorough": 3300}
CLASSES = ("Discretizer", "Discretizer", "QualitativeDiscretizer", "QuantitativeDiscretizer", "BinaryCarver", "ContinuousCarver", "MulticlassCarver")
SEEDS = {"quick": [0, 1, 31337], "thorough": [0, 1, 2, 7, 31337]}
REQUEST_TIMEOUT_S = 90
_TIER = {"tier": "quick"}
_WORKERS = {}


def strategy(tier):
    _TIER["tier"] = tier
    seeds = SEEDS[tier]
    variant = st.fixed_dictionaries(
        {
            "kind": st.sampled_from(["single", "single", "subset", "lists", "columns", "shim", "shim", "real"]),
            "pick": st.integers(0, 10**6),
            "list_key": st.integers(0, 10**6),
            "col_key": st.integers(0, 10**6),
            "order_key": st.integers(0, 10**6),
            "n_jobs": st.sampled_from([2, 3]),
            "hashseed": st.sampled_from(seeds),
        }
    )
    def hash_equal_pair(pair):
        """In a share of the cases two categorical features are turned into a bool-valued and a 0.0/1.0-valued
        column: values that compare and hash equal across features (True == 1.0) expose state shared between
        features."""
        case, flag = pair
        cats = [f for f in case["features"] if f["kind"] == "categorical"]
        if flag and len(cats) >= 2:
            for f, values, flavour in ((cats[0], [True, False], "bools"), (cats[1], [0.0, 1.0], "flags")):
                for key in ("train", "dev"):
                    if f.get(key):
                        f[key] = [[row[0], sum(row[1:-1]), row[-1]] for row in f[key]]
                f["values"], f["flavour"], f["twins"] = values, flavour, []
                f.pop("pinned", None)
        return case

    return st.tuples(
        st.tuples(
            fitted_case(CLASSES, min_features=2, max_features=5, dev_modes=("none", "none", "same"), cat_flavours=WITH_BOOLS),
            st.integers(0, 2).map(lambda v: v == 0),
        ).map(hash_equal_pair),
        st.lists(variant, min_size=4, max_size=7),
    ).map(lambda t: dict(t[0], variants=t[1]))


def worker(hashseed):
    proc = _WORKERS.get(hashseed)
    if proc is None or proc.poll() is not None:
        env = dict(
            os.environ, PYTHONHASHSEED=str(hashseed), VERIF_KEEP_HASHSEED="1",
            # single-threaded numeric libraries: the real multiprocessing.Pool forks from this process
            OMP_NUM_THREADS="1", OPENBLAS_NUM_THREADS="1", MKL_NUM_THREADS="1", NUMEXPR_NUM_THREADS="1",
        )
        proc = subprocess.Popen(
            [sys.executable, os.path.join(os.path.dirname(os.path.abspath(__file__)), "c10_worker.py")],
            stdin=subprocess.PIPE, stdout=subprocess.PIPE, stderr=subprocess.DEVNULL, env=env, text=True, bufsize=1,
        )
        _WORKERS[hashseed] = proc
    return proc


def ask(hashseed, case, variant):
    proc = worker(hashseed)
    proc.stdin.write(json.dumps({"case": case, "variant": variant}) + "\n")
    proc.stdin.flush()
    import select

    ready, _, _ = select.select([proc.stdout], [], [], REQUEST_TIMEOUT_S)
    if not ready:
        # a stuck worker (e.g. a real Pool that never returns) is inconclusive, never a verdict
        proc.kill()
        _WORKERS.pop(hashseed, None)
        return {"status": "timeout"}
    line = proc.stdout.readline()
    if not line:
        raise HarnessError(f"C10 worker (hash seed {hashseed}) died")
    answer = json.loads(line)
    if answer.get("status") == "harness-error":
        raise HarnessError("C10 worker: " + answer["message"])
    return answer


@atexit.register
def _stop_workers():
    for proc in _WORKERS.values():
        try:
            proc.stdin.close()
            proc.terminate()
        except Exception:  # noqa: BLE001
            pass


def check_case(case) -> Outcome:
    out = Outcome()
    cfg = case["config"]
    out.label(f"cls:{cfg['cls']}")
    names = [f["name"] for f in case["features"]]
    base_case = {k: v for k, v in case.items() if k != "variants"}
    seeds = SEEDS[_TIER["tier"]]
    requests = [("reference", seeds[0], {"n_jobs": 1})]
    # the same full fit under every hash seed
    for hs in seeds[1:]:
        requests.append((f"hashseed:{hs}", hs, {"n_jobs": 1}))
    for v in case["variants"]:
        kind = v["kind"]
        if kind == "single":
            spec = {"subset": [names[v["pick"] % len(names)]], "n_jobs": 1}
        elif kind == "subset":
            keep = [n for i, n in enumerate(names) if (v["pick"] >> i) & 1] or [names[0]]
            spec = {"subset": keep, "n_jobs": 1}
        elif kind == "lists":
            spec = {"list_key": v["list_key"], "n_jobs": 1}
        elif kind == "columns":
            spec = {"col_key": v["col_key"], "n_jobs": 1}
        elif kind == "shim":
            spec = {"n_jobs": v["n_jobs"], "pool": "shim", "order_key": v["order_key"], "list_key": v["list_key"]}
        else:
            spec = {"n_jobs": 2, "pool": "real"}
        requests.append((kind, v["hashseed"], spec))

    answers = []
    for kind, hs, spec in requests:
        answers.append((kind, hs, spec, ask(hs, base_case, spec)))
    ref = answers[0][3]
    if ref["status"] == "timeout":
        return discard("reference-timeout", out.labels)
    if ref["status"] == "error":
        return discard(f"reference-fit-raised:{ref.get('type')}", out.labels)
    orders_seen = set()
    for kind, hs, spec, ans in answers:
        tag = kind.split(":")[0]
        out.label(f"variant:{tag}")
        subset = spec.get("subset")
        expected_names = [n for n in names if subset is None or n in subset]
        if ans["status"] == "timeout":
            out.label("variant-timeout-inconclusive")
            continue
        if ans["status"] == "error":
            out.violate(f"variant-raised:{tag}:{ans.get('type')}", f"{kind} (hash seed {hs}, {spec}) raised {ans.get('type')}: {ans.get('message')}; reference status {ref['status']}")
            continue
        if ref["status"] == "assertion" or ans["status"] == "assertion":
            if subset is None and ans["status"] != ref["status"]:
                out.violate(f"acceptance-differs:{tag}", f"{kind} (hash seed {hs}): status {ans['status']} vs reference {ref['status']}")
            continue
        if subset is None:
            orders_seen.add(tuple(ans["features_order"]))

        def raw_of(feature):
            for n in sorted(names, key=len, reverse=True):
                if feature == n or feature.startswith(n + "_"):
                    return n
            return feature

        ref_feats = {f: d for f, d in ref["features"].items() if raw_of(f) in expected_names}
        got_feats = ans["features"]
        if set(ref_feats) != set(got_feats):
            only_ref = sorted(set(ref_feats) - set(got_feats))
            only_var = sorted(set(got_feats) - set(ref_feats))
            out.violate(f"kept-features-differ:{tag}", f"{kind} (hash seed {hs}, {spec}): kept only in the reference {only_ref}, only in the variant {only_var}")
            continue
        for f, d in ref_feats.items():
            g = got_feats[f]
            if d["order"] != g["order"] or d["content"] != g["content"]:
                out.violate(f"values_orders-differ:{tag}", f"{kind} (hash seed {hs}, {spec}): feature {f}: {d['order']} / {g['order']}")
                break
            if d["labels"] != g["labels"]:
                out.violate(f"transform-output-differs:{tag}", f"{kind} (hash seed {hs}, {spec}): feature {f}")
                break
            if "cross_labels" in d:
                out.label("cross-frame-compared")
                # the variant plants the same cells in the columns it shares with the reference (same fitted
                # orders => same default groups); columns it does not own stay as they are for it
                if "cross_labels" in g and d["cross_labels"] != g["cross_labels"]:
                    pairs = [(i, a, b) for i, (a, b) in enumerate(zip(d["cross_labels"], g["cross_labels"])) if a != b][:3]
                    out.violate(f"cross-frame-output-differs:{tag}", f"{kind} (hash seed {hs}, {spec}): feature {f}: rows {pairs} (reference vs variant) on a frame holding values of other columns' vocabularies")
                    break
    if len(orders_seen) >= 2:
        out.label("several-feature-iteration-orders")
    kinds = {f["kind"] for f in case["features"]}
    dropped = ref["status"] == "ok" and len(ref["features"]) < len(names)
    merged = ref["status"] == "ok" and any(any(len(m) > 1 for m in d["content"].values()) for d in ref["features"].values())
    out.nontrivial = len(names) >= 3 and len(kinds) >= 2 and (dropped or merged) and len(orders_seen) >= 2
    if dropped:
        out.label("feature-dropped")
    return out
