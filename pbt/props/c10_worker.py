"""Worker process of the C10 check: started with a given PYTHONHASHSEED, reads one JSON request per
line on stdin ({"case": ..., "variant": ...}), fits / transforms and answers one JSON line on stdout.

The harness owns the schedule of "parallel" work: when variant["pool"] == "shim" the names `Pool` of the
three package modules that use multiprocessing are rebound to ShimPool, which runs every task on a pickled
copy of its arguments (process isolation) in a chosen execution order and delivers results in a chosen
completion order.
"""
import json
import os
import pickle
import random
import sys

HERE = os.path.dirname(os.path.dirname(os.path.abspath(__file__)))
sys.path.insert(0, HERE)

from core.bootstrap import bootstrap  # noqa: E402

bootstrap()

import warnings  # noqa: E402

warnings.filterwarnings("ignore")

from gen.objects import CARVERS, make_object  # noqa: E402
from gen.samples import build  # noqa: E402
import pandas as pd  # noqa: E402


class _Async:
    def __init__(self, value):
        self._value = value

    def get(self, timeout=None):
        return self._value


class ShimPool:
    """Deterministic stand-in for multiprocessing.Pool (schedule chosen by the harness)."""

    order_key = 0

    def __init__(self, processes=None, *args, **kwargs):
        self.processes = processes

    def __enter__(self):
        return self

    def __exit__(self, *exc):
        return False

    @staticmethod
    def _isolated(func, args):
        func2, args2 = pickle.loads(pickle.dumps((func, args)))
        return pickle.loads(pickle.dumps(func2(*args2)))

    def apply_async(self, func, args=(), kwds=None):
        return _Async(self._isolated(func, tuple(args)))

    def imap_unordered(self, func, iterable, chunksize=1):
        tasks = list(iterable)
        rng = random.Random(ShimPool.order_key)
        exec_order = list(range(len(tasks)))
        rng.shuffle(exec_order)
        results = {}
        for i in exec_order:
            results[i] = self._isolated(func, (tasks[i],))
        completion = list(range(len(tasks)))
        rng.shuffle(completion)
        for i in completion:
            yield results[i]

    def map(self, func, iterable):
        return [self._isolated(func, (t,)) for t in iterable]


def rebind_pool(pool_cls):
    import multiprocessing

    from AutoCarver.discretizers.utils import base_discretizers, quantitative_discretizers, type_discretizers

    target = pool_cls or multiprocessing.Pool
    for mod in (base_discretizers, quantitative_discretizers, type_discretizers):
        mod.Pool = target


def canon(v):
    if isinstance(v, float) and v != v:
        return "nan"
    return f"{type(v).__name__ if isinstance(v, str) else 'num'}:{v!r}" if isinstance(v, str) else f"num:{float(v)!r}"


def handle(req):
    case, variant = req["case"], req["variant"]
    sample = build(case)
    cfg = dict(case["config"])
    subset = variant.get("subset")
    rng = random.Random(variant.get("list_key", 0))
    # permuted feature lists: make_object reads case["features"] in order
    feats = list(case["features"])
    if subset is not None:
        feats = [f for f in feats if f["name"] in subset]
    if variant.get("list_key") is not None:
        rng.shuffle(feats)
    vcase = dict(case, features=feats, config=dict(cfg, n_jobs=variant.get("n_jobs", 1)))
    X = sample.X
    cols = list(X.columns)
    if variant.get("col_key") is not None:
        random.Random(variant["col_key"]).shuffle(cols)
        X = X[cols]
    Xd = sample.X_dev[cols] if sample.X_dev is not None else None
    if variant.get("pool") == "shim":
        ShimPool.order_key = variant.get("order_key", 0)
        rebind_pool(ShimPool)
    else:
        rebind_pool(None)
    obj = make_object(vcase)
    try:
        if cfg["cls"] in CARVERS and Xd is not None:
            obj.fit(X.copy(), sample.y.copy(), X_dev=Xd.copy(), y_dev=sample.y_dev.copy())
        else:
            obj.fit(X.copy(), sample.y.copy())
    except AssertionError as exc:
        return {"status": "assertion", "message": str(exc)[:200], "features_order": list(getattr(obj, "features", []))}
    except Exception as exc:  # noqa: BLE001 - reported to the parent as observed behaviour
        return {"status": "error", "type": type(exc).__name__, "message": str(exc)[:300]}
    out = {"status": "ok", "features_order": list(obj.features), "features": {}}
    if obj.features:
        try:
            tr = obj.transform(X.copy())
        except Exception as exc:  # noqa: BLE001
            return {"status": "error", "type": "transform:" + type(exc).__name__, "message": str(exc)[:300]}
        for f in obj.features:
            order = obj.values_orders[f]
            out["features"][f] = {
                "order": [canon(l) for l in order],
                "content": {canon(k): sorted(canon(m) for m in v) for k, v in order.content.items()},
                "labels": [canon(v) for v in tr[f].tolist()],
            }
        # a second frame in which qualitative features that own a default group receive values of the OTHER
        # qualitative columns' vocabularies (unseen for them, known elsewhere): the output of a feature must not
        # depend on what the columns transformed with it contain
        if cfg["cls"] != "MulticlassCarver":
            cross = X.iloc[: min(len(X), 40)].copy()
            quali = sorted(c for c in X.columns if sample.specs[c]["kind"] in ("ordinal", "categorical"))
            planted = False
            for c in quali:
                if c not in obj.features or "__OTHER__" not in [k for k in obj.values_orders[c].content if isinstance(k, str)]:
                    continue
                tokens = [v for o in quali if o != c for v in sample.specs[o]["values"] if isinstance(v, str) and v]
                if not tokens:
                    continue
                crng = random.Random(f"{case['key']}:{c}")
                col = cross[c].astype(object).tolist()
                for i in range(len(col)):
                    if crng.random() < 0.3:
                        col[i] = crng.choice(tokens)
                        planted = True
                cross[c] = pd.Series(col, index=cross.index, dtype=object)
            if planted:
                try:
                    tr2 = obj.transform(cross.copy())
                    for f in obj.features:
                        out["features"][f]["cross_labels"] = [canon(v) for v in tr2[f].tolist()]
                except AssertionError as exc:
                    out["cross_error"] = "assertion:" + str(exc)[:200]
                except Exception as exc:  # noqa: BLE001
                    out["cross_error"] = type(exc).__name__ + ":" + str(exc)[:200]
    return out


def main():
    for line in sys.stdin:
        line = line.strip()
        if not line:
            continue
        try:
            answer = handle(json.loads(line))
        except Exception as exc:  # noqa: BLE001 - harness-side failure, reported as such
            import traceback

            answer = {"status": "harness-error", "message": traceback.format_exc()[-1500:]}
        sys.stdout.write(json.dumps(answer) + "\n")
        sys.stdout.flush()


if __name__ == "__main__":
    devnull = open(os.devnull, "w")
    real_stdout = sys.stdout
    # the package prints to stdout: keep the protocol channel clean
    sys.stdout = real_stdout
    import builtins

    _print = builtins.print
    builtins.print = lambda *a, **k: None
    main()
