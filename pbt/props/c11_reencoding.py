"""C11 — carving is invariant under information-preserving re-encodings."""
import random
from fractions import Fraction

import numpy as np
import pandas as pd
from hypothesis import strategies as st

from core.outcome import Outcome, discard, observe
from gen.objects import fitted_case
from gen.samples import build, feature_lists
from oracles.mapping import factorize, is_missing
from oracles.views import canonical_str

PID = "C11"
RULE = (
    "A base case (table-first sample, Binary/ContinuousCarver, values restricted to integers and dyadic rationals "
    "so that the maps are exact) and 1-3 re-encodings of it: row permutation carrying the index; index relabelling "
    "(offset ints, shuffled ints, strings) applied consistently to X, y, X_dev, y_dev; x -> a*x+b with a in "
    "{0.5, 2, 4, 3, 10, 1000}, b integer, verified exact with Fractions for every value; renaming of the categories "
    "of a categorical feature by a bijection preserving the lexicographic order of the names; renaming of an ordinal "
    "feature's levels by any bijection applied to data and ranking alike (alphabetical order of the new names is "
    "unrelated to the ranking). Oracle (metamorphic): same kept features and identical partition of the "
    "(identity-tracked) rows induced by transform on train and dev. Non-trivial: a feature is kept with >= 2 groups "
    "and the re-encoding is not the identity."
)
BOUNDS = {"rows": "12-400", "features": "1-3", "fits_per_case": "2-4"}
ASSUMPTIONS = ["numeric-valued categories are not renamed (their string form is their identity)"]
BUDGET = {"quick": 1600, "thorough": 20000}
DEADLINE_S = {"quick": 230, "thorough": 3300}
POOLS = ["small_int", "small_int", "dyadic", "half", "yyyymm"]


def strategy(tier):
    enc = st.one_of(
        st.tuples(st.just("perm"), st.integers(0, 10**6)),
        st.tuples(st.just("perm"), st.integers(0, 10**6)),
        st.tuples(st.just("index"), st.sampled_from(["offset", "shuffled", "str"])),
        st.tuples(st.just("affine"), st.sampled_from([0.5, 2, 4, 3, 10, 1000]), st.integers(-1000, 1000)),
        st.tuples(st.just("affine"), st.sampled_from([1, 1, 4]), st.sampled_from([1024, 4096, 2**20, -(2**20)])),
        st.tuples(st.just("rename"), st.integers(0, 10**6)),
        st.tuples(st.just("rename"), st.integers(0, 10**6)),
    )
    general = st.tuples(
        fitted_case(("BinaryCarver", "ContinuousCarver"), quant_pools=POOLS, dev_modes=("none", "none", "same", "perturbed", "independent"), twin_boost=True,
                    feature_kinds=("continuous", "discrete", "ordinal", "categorical", "categorical", "categorical")),
        st.lists(enc, min_size=1, max_size=3),
    ).map(lambda t: dict(t[0], encodings=with_perm(t[0], t[1])))

    @st.composite
    def grid_case(draw):
        """One continuous feature whose n distinct values each occur once, with n-1 a multiple of the number of
        quantiles: every quantile level falls exactly on an observation (the rounding-sensitive situation for
        quantile cuts), re-encoded by large exact shifts."""
        min_freq = draw(st.sampled_from([0.02, 0.02, 0.02, 0.15, 0.05, 0.1]))
        q = round(1 / min_freq)
        n = q * draw(st.integers(1, max(1, 400 // q))) + 1
        start = draw(st.sampled_from([0, 0, 1, 2, -3, 8, 40, 200]))
        values = [(start + i) / 4 for i in range(n)]
        # the target switches at (or right after) an observation on which a quantile level falls
        import numpy as np

        # prefer the levels whose rank level*(n-1) is not computed exactly in binary floating point: that is
        # where an interpolating quantile would land a hair beside the observation
        levels = np.linspace(0, 1, q + 1)
        inexact = [j for j in range(1, q) if float(levels[j] * (n - 1)) != float((n - 1) * j // q)]
        k = draw(st.sampled_from(inexact)) if inexact and draw(st.booleans()) else draw(st.integers(1, q - 1))
        cut = min(n - 1, max(1, (n - 1) * k // q + draw(st.integers(0, 1))))
        flips = set(draw(st.lists(st.integers(0, n - 1), max_size=n // 20)))
        level = [(1 if i >= cut else 0) ^ (1 if i in flips else 0) for i in range(n)]
        if sum(level) in (0, n):
            level[0] = 1 - level[0]
        table = [[0 if l else 1 for l in level] + [0], [1 if l else 0 for l in level] + [0]]
        blocks = [n - sum(level), sum(level)]
        max_groups = 3 if min_freq < 0.05 else (4 if min_freq < 0.1 else 6)
        cfg = {"cls": "BinaryCarver", "min_freq": min_freq, "min_freq_mod": None, "max_n_mod": draw(st.integers(2, max_groups)), "dropna": True,
               "output_dtype": "float", "copy": True, "sort_by": draw(st.sampled_from(["tschuprowt", "cramerv"])), "n_jobs": 1}
        case = {"target": {"kind": "binary", "levels": [0, 1], "blocks": blocks}, "dev_blocks": None,
                "features": [{"name": "q0", "kind": "continuous", "pool": "dyadic", "values": values, "train": table, "dev": None}],
                "key": draw(st.integers(0, 2**20)), "index": "range", "config": cfg}
        shifts = draw(st.lists(st.tuples(st.just("affine"), st.sampled_from([1, 1, 4, 0.5]), st.sampled_from([1024, 4096, 2**20, -(2**20), 3])), min_size=1, max_size=3))
        case["encodings"] = shifts
        case["grid"] = True
        return case

    # (one_of would merge the repeated branches: the share of grid cases is drawn explicitly)
    grid = grid_case()
    return st.integers(0, 4).flatmap(lambda i: grid if i <= 1 else general)


def with_perm(case, encodings):
    """Exact ties of target rate between categories are where the row order could matter: such cases always get
    a row permutation among their re-encodings."""
    encodings = [list(e) for e in encodings]
    tied = any(f["kind"] == "categorical" and f.get("twins") for f in case["features"])
    if tied and not any(e[0] == "perm" for e in encodings):
        encodings = encodings[:2] + [["perm", case["key"] + 1]]
    return encodings


def make_carver(case, rankings):
    from AutoCarver import BinaryCarver, ContinuousCarver
    from AutoCarver.discretizers import GroupedList

    cfg = case["config"]
    quant, cat, ordi, _ = feature_lists(case)
    kwargs = dict(
        min_freq=cfg["min_freq"], quantitative_features=quant, qualitative_features=cat, ordinal_features=ordi,
        values_orders={f: GroupedList(list(rankings[f])) for f in ordi}, max_n_mod=cfg["max_n_mod"], min_freq_mod=cfg["min_freq_mod"],
        output_dtype=cfg["output_dtype"], dropna=cfg["dropna"], copy=True,
    )
    if cfg["cls"] == "BinaryCarver":
        return BinaryCarver(sort_by=cfg["sort_by"], **kwargs)
    return ContinuousCarver(**kwargs)


def run(case, X, y, X_dev, y_dev, rankings):
    """Fit + transform; returns Res with value = (features, {feature: labels by row id}, same for dev)."""
    carver = make_carver(case, rankings)

    def go():
        if X_dev is not None:
            carver.fit(X.copy(), y.copy(), X_dev=X_dev.copy(), y_dev=y_dev.copy())
        else:
            carver.fit(X.copy(), y.copy())
        feats = sorted(carver.features)
        tr = carver.transform(X.copy()) if feats else None
        dv = carver.transform(X_dev.copy()) if feats and X_dev is not None else None
        return feats, tr, dv

    return observe(go)


def check_case(case) -> Outcome:
    out = Outcome()
    cfg = case["config"]
    out.label(f"cls:{cfg['cls']}")
    sample = build(case)
    quant, cat, ordi, rankings = feature_lists(case)
    base = run(case, sample.X, sample.y, sample.X_dev, sample.y_dev, rankings)
    if not base.ok:
        return discard(f"base-fit-raised:{base.exc_type}", out.labels)
    feats0, tr0, dv0 = base.value
    n = len(sample.X)
    row_ids = list(range(n))
    kept_with_groups = any(len(set(map(str, tr0[f].tolist()))) >= 2 for f in feats0) if feats0 else False

    for enc in case["encodings"]:
        enc = list(enc)
        X, y = sample.X.copy(), sample.y.copy()
        Xd = sample.X_dev.copy() if sample.X_dev is not None else None
        yd = sample.y_dev.copy() if sample.y_dev is not None else None
        rk = {f: list(r) for f, r in rankings.items()}
        order_of_rows = list(range(n))
        identity = False
        if enc[0] == "perm":
            perm = list(range(n))
            random.Random(enc[1]).shuffle(perm)
            X, y = X.iloc[perm], y.iloc[perm]
            order_of_rows = perm
            identity = perm == list(range(n))
        elif enc[0] == "index":
            def relabel(index, style, offset):
                m = len(index)
                if style == "offset":
                    return pd.Index([offset + 7 * i for i in range(m)])
                if style == "shuffled":
                    ids = list(range(offset, offset + m))
                    random.Random(m + offset).shuffle(ids)
                    return pd.Index(ids)
                return pd.Index([f"id_{offset}_{i}" for i in range(m)], dtype=object)

            new = relabel(X.index, enc[1], 10**5)
            X.index, y.index = new, new
            if Xd is not None:
                newd = relabel(Xd.index, enc[1], 10**7)
                Xd.index, yd.index = newd, newd
        elif enc[0] == "affine":
            if not quant:
                continue
            a, b = enc[1], enc[2]
            exact = True
            for f in quant:
                for v in sample.specs[f]["values"]:
                    img = Fraction(a) * Fraction(v) + b
                    if Fraction(float(img)) != img or abs(img) > 2**50:
                        exact = False
            if not exact:
                out.label("affine-not-exact-skipped")
                continue
            for f in quant:
                X[f] = X[f].astype(float) * a + b
                if Xd is not None:
                    Xd[f] = Xd[f].astype(float) * a + b
        elif enc[0] == "rename":
            rng = random.Random(enc[1])
            changed = False
            for f in cat:
                spec = sample.specs[f]
                if spec.get("flavour") != "str":
                    continue
                names = sorted(v for v in spec["values"])
                # new names in the same lexicographic order - also relative to the package's own sentinels
                # '__OTHER__' / '__NAN__', which take part in the same ordering (ties in target rate are
                # broken by name): names sorting before '_' get upper-case names, the others lower-case ones
                below = [v for v in names if v < "_"]
                above = [v for v in names if not v < "_"]
                pool_below = sorted({f"{rng.choice('BCDFGH')}{i:02d}{rng.choice('XYZ')}" for i in range(len(below) + 3)})[: len(below)]
                pool_above = sorted({f"{rng.choice('bcdfgh')}{i:02d}{rng.choice('xyz')}" for i in range(len(above) + 3)})[: len(above)]
                mapping = dict(zip(below + above, pool_below + pool_above))
                X[f] = X[f].map(lambda v: v if is_missing(v) else mapping[v]).astype(object)
                if Xd is not None:
                    Xd[f] = Xd[f].map(lambda v: v if is_missing(v) else mapping[v]).astype(object)
                changed = True
            for f in ordi:
                levels = list(rk[f])
                fresh = [f"n{rng.randrange(10**6):06d}" for _ in levels]
                if len(set(fresh)) != len(fresh):
                    fresh = [f"n{i}_{x}" for i, x in enumerate(fresh)]
                mapping = dict(zip(levels, fresh))
                X[f] = X[f].map(lambda v: v if is_missing(v) else mapping[v if isinstance(v, str) else canonical_str(v)]).astype(object)
                if Xd is not None:
                    Xd[f] = Xd[f].map(lambda v: v if is_missing(v) else mapping[v if isinstance(v, str) else canonical_str(v)]).astype(object)
                rk[f] = [mapping[v] for v in levels]
                changed = True
            if not changed:
                continue
        res = run(case, X, y, Xd, yd, rk)
        tag = enc[0]
        out.label(f"enc:{tag}")
        if not res.ok:
            out.violate(f"re-encoded-fit-raised:{tag}:{res.bucket()}", f"{enc!r}: base case fits but the re-encoded one raised {res.exc!r}")
            continue
        feats1, tr1, dv1 = res.value
        if feats1 != feats0:
            out.violate(f"kept-features-differ:{tag}", f"{enc!r}: base keeps {feats0}, re-encoded keeps {feats1}")
            continue
        for f in feats0:
            base_labels = tr0[f].tolist()
            new_labels = tr1[f].tolist()
            # align on row identity
            aligned = [None] * n
            for pos, rid in enumerate(order_of_rows):
                aligned[rid] = new_labels[pos]
            if factorize(base_labels) != factorize(aligned):
                kind = sample.specs[f]["kind"]
                out.violate(f"partition-differs:{tag}:{'quantitative' if kind in ('continuous', 'discrete') else kind}", f"{enc!r}: feature {f}: base groups {sorted(set(map(str, base_labels)))} vs re-encoded {sorted(set(map(str, aligned)))}")
                break
            if dv0 is not None and factorize(dv0[f].tolist()) != factorize(dv1[f].tolist()):
                out.violate(f"dev-partition-differs:{tag}", f"{enc!r}: feature {f} on X_dev")
                break
        if kept_with_groups and not identity:
            out.nontrivial = True
    return out
