"""C12 — MulticlassCarver equals one-vs-rest BinaryCarvers."""
from hypothesis import strategies as st

from core.outcome import Outcome, discard, observe
from gen.objects import fitted_case, make_object
from gen.samples import build
from oracles.mapping import columns_equal, frames_equal

PID = "C12"
RULE = (
    "Samples with 3-5 target classes (int labels, str labels, labels whose string order differs from numeric "
    "order), 1-3 features of every kind, optional dev sample (same class set), every BinaryCarver parameter incl. "
    "non-default min_freq_mod, dropna, output_dtype, copy, and values_orders holding a previous grouping of a "
    "categorical feature. Oracle: differential against independently constructed "
    "BinaryCarvers: classes sorted as strings; for each class c except the first a BinaryCarver with the same "
    "parameters is fitted on 1[str(y)==c] (fresh copies of every input); column f_c exists in "
    "MulticlassCarver.transform(X) iff that carver kept f and equals its transform(X)[f]; raw columns are present "
    "and equal to the input; no other column appears; transforming a frame that already holds the class columns "
    "(the previous output, or stale values) yields the same class columns. Non-trivial: >= 3 classes and some feature kept for one "
    "class (and, counted separately, dropped for another)."
)
BOUNDS = {"rows": "18-450", "classes": "3-5", "features": "1-3"}
ASSUMPTIONS = ["the reference BinaryCarvers come from the same code base: this is a differential, one-vs-rest composition check"]
BUDGET = {"quick": 320, "thorough": 12000}
DEADLINE_S = {"quick": 220, "thorough": 3300}


@st.composite
def strategy_case(draw):
    case = draw(fitted_case(("MulticlassCarver",), dev_modes=("none", "none", "same", "perturbed", "independent")))
    # a third of the cases hand over a previous discretization of the string-valued categorical features through
    # values_orders (groups of 1-3 values, every value listed): a BinaryCarver parameter like any other
    pregrouped = {}
    for f in case["features"]:
        if f["kind"] == "categorical" and f.get("flavour") == "str" and len(f["values"]) >= 3 and draw(st.integers(0, 2)) == 0:
            values = [v for v in f["values"]]
            groups, i = [], 0
            while i < len(values):
                size = draw(st.integers(1, 3))
                chunk = values[i : i + size]
                groups.append([chunk[-1], chunk])
                i += size
            pregrouped[f["name"]] = groups
    if pregrouped:
        case["config"]["pregrouped"] = pregrouped
    return case


def strategy(tier):
    return strategy_case()


def check_case(case) -> Outcome:
    out = Outcome()
    cfg = case["config"]
    sample = build(case)
    out.label(f"classes:{len(case['target']['levels'])}", f"labels:{type(case['target']['levels'][0]).__name__}")
    has_dev = sample.X_dev is not None
    if has_dev:
        out.label("dev")
    if cfg.get("pregrouped"):
        out.label("pregrouped-categorical-values_orders")

    def fit(obj, y, y_dev):
        if has_dev:
            return observe(obj.fit, sample.X.copy(), y.copy(), X_dev=sample.X_dev.copy(), y_dev=y_dev.copy())
        return observe(obj.fit, sample.X.copy(), y.copy())

    multi = make_object(case)
    rm = fit(multi, sample.y, sample.y_dev)
    classes = sorted(str(v) for v in case["target"]["levels"])
    y_str = sample.y.astype(str)
    y_dev_str = sample.y_dev.astype(str) if has_dev else None
    refs = {}
    ref_errors = {}
    for cl in classes[1:]:
        bcase = dict(case, config=dict(cfg, cls="BinaryCarver"))
        ref = make_object(bcase)
        r = fit(ref, (y_str == cl).astype(int), (y_dev_str == cl).astype(int) if has_dev else None)
        if r.ok:
            refs[cl] = ref
        else:
            ref_errors[cl] = r
    if not rm.ok:
        if ref_errors and any(type(e.exc) is type(rm.exc) for e in ref_errors.values()):
            return discard(f"fit-raised-consistently:{rm.exc_type}", out.labels)
        out.violate(f"multiclass-fit-raised-but-binary-carvers-fit:{rm.bucket()}", f"MulticlassCarver.fit raised {rm.exc!r}; reference errors {[(c, repr(e.exc)[:80]) for c, e in ref_errors.items()]}")
        return out
    if ref_errors:
        cl, err = next(iter(ref_errors.items()))
        out.violate(f"binary-carver-raises-but-multiclass-fits:{err.bucket()}", f"BinaryCarver for class {cl!r} raised {err.exc!r} but MulticlassCarver fitted")
        return out

    res = observe(multi.transform, sample.X.copy())
    if not res.ok:
        out.violate(f"multiclass-transform-raised:{res.bucket()}", f"transform raised {res.exc!r}")
        return out
    result = res.value
    raw_cols = list(sample.X.columns)
    expected_cols = set(raw_cols)
    kept_somewhere = dropped_somewhere = False
    for cl, ref in refs.items():
        ref_out = observe(ref.transform, sample.X.copy())
        if not ref_out.ok:
            out.violate(f"reference-transform-raised:{ref_out.bucket()}", f"BinaryCarver[{cl}].transform raised {ref_out.exc!r}")
            return out
        for f in raw_cols:
            col = f"{f}_{cl}"
            kept = f in ref.features
            kept_somewhere |= kept
            dropped_somewhere |= not kept
            if kept:
                expected_cols.add(col)
                if col not in result.columns:
                    out.violate("class-column-missing", f"{col}: BinaryCarver for class {cl!r} keeps {f!r} but the column is absent (columns {list(result.columns)})")
                    continue
                if not columns_equal(result[col].tolist(), ref_out.value[f].tolist()):
                    pairs = [(a, b) for a, b in zip(result[col].tolist(), ref_out.value[f].tolist()) if str(a) != str(b)][:3]
                    out.violate("class-column-differs-from-binary-carver", f"{col}: differs from BinaryCarver[{cl}] output, e.g. {pairs}; multiclass order {list(multi.values_orders.get(col, []))!r} vs binary {list(ref.values_orders[f])!r}")
            elif col in result.columns:
                out.violate("class-column-present-though-dropped", f"{col}: BinaryCarver for class {cl!r} drops {f!r} but the column exists")
    # the class columns are a function of the raw columns only: a frame that already carries them (the output of a
    # previous transform, or stale copies) is given the same class columns again
    class_cols = {f"{f}_{cl}": (f, cl) for cl, ref in refs.items() for f in raw_cols if f in ref.features and f"{f}_{cl}" in result.columns}
    if class_cols:
        for variant in ("retransform", "stale"):
            frame = result.copy()
            if variant == "stale":
                for col, (f, _) in class_cols.items():
                    frame[col] = sample.X[f].tolist()[::-1]
            again = observe(multi.transform, frame)
            if not again.ok:
                out.violate(f"multiclass-transform-raised:{variant}:{again.bucket()}", f"transform of a frame that already holds class columns ({variant}) raised {again.exc!r}")
                continue
            for col, (f, cl) in class_cols.items():
                if col not in again.value.columns or not columns_equal(again.value[col].tolist(), result[col].tolist()):
                    out.violate(f"class-column-depends-on-existing-column:{variant}", f"{col}: transform of a frame already holding {col!r} ({variant}) differs from transform of the raw frame")
                    break
        out.label("frame-with-existing-class-columns")
    extra = [c for c in result.columns if c not in expected_cols]
    if extra:
        out.violate("unexpected-columns", f"unexpected columns {extra}")
    missing_raw = [c for c in raw_cols if c not in result.columns]
    if missing_raw:
        out.violate("raw-column-missing", f"raw columns {missing_raw} absent from the output {list(result.columns)}")
    else:
        diff = frames_equal(sample.X[raw_cols], result[raw_cols])
        if diff:
            out.violate("raw-column-modified", f"raw columns changed: {diff}")
    out.nontrivial = kept_somewhere
    if kept_somewhere and dropped_somewhere:
        out.label("kept-for-one-class-dropped-for-another")
    if cfg["min_freq_mod"] is not None:
        out.label("explicit-min_freq_mod")
    return out
