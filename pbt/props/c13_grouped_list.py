"""C13 — GroupedList stays a consistent ordered partition under any history.

Domain: operation sequences (data, JSON) over a universe mixing str / int / float / sentinels, interpreted
against the current state (selectors are taken modulo the number of leaders, so every generated
operation is valid by construction; a small share of explicitly invalid operations must be refused
without changing the state).  Oracle: lock-step reference model + structural invariants after every
step.  Plus a bounded exhaustive exploration on a 5-value universe.
"""
import copy
import itertools
import math

import numpy as np
from hypothesis import strategies as st

from core.outcome import Outcome, case_hash, observe
from oracles.grouped_list_model import Model, is_nan, key_of, same

PID = "C13"
UNIVERSE = ["a", "b", "B", "10", "", 0, 1, 2, 2.5, -1.0, "__NAN__", "__OTHER__"]
SMALL = ["a", "", 0, 2.5, "__NAN__"]
NAN = float("nan")
REFUSALS = (AssertionError, KeyError, ValueError, IndexError)

RULE = (
    "Hypothesis draws an initial construction (list / dict incl. the 'key grouped elsewhere' form / "
    "ndarray) and 1-25 operations (group, group_list, append, update, remove, pop, sort, sort_by, "
    "replace_group_leader, copy, dict round trip, group-splitting update, invalid variants) with selectors resolved against "
    "the current state; after every step list/content/get/get_group/values/contains are compared with "
    "a reference model and structural invariants are checked. Non-trivial: the sequence performed "
    ">=1 effective merge of two distinct leaders and >=3 effective operations. Distinct = distinct "
    "case JSON. The exhaustive part enumerates every valid operation instance from every state "
    "reachable within the depth bound on the 5-value universe {'a','',0,2.5,'__NAN__'}."
)
BOUNDS = {"universe": len(UNIVERSE), "max_ops": 25, "exhaustive_universe": 5, "exhaustive_depth": {"quick": 3, "thorough": 5}}
ASSUMPTIONS = [
    "valid operations only as documented/used by the package: group on leaders, append of a value not "
    "contained, update with member lists containing their key and disjoint from other groups",
    "member order inside a group is not part of the property (compared as multisets)",
    "NaN is used as a query value only (the package never stores NaN in a GroupedList)",
]
BUDGET = {"quick": 6000, "thorough": 200000}
DEADLINE_S = {"quick": 150, "thorough": 3300}


def _gl():
    from AutoCarver.discretizers.utils.grouped_list import GroupedList

    return GroupedList


# ----------------------------------------------------------------------------- strategy
def strategy(tier):
    n_univ = len(UNIVERSE)
    idx = st.integers(0, n_univ - 1)
    sel = st.integers(0, 11)

    init_list = st.lists(idx, unique=True, max_size=7).map(lambda xs: {"kind": "list", "items": xs})
    init_array = st.sampled_from(["str", "num"]).flatmap(
        lambda k: st.lists(
            st.sampled_from([0, 1, 2, 3, 4, 10, 11] if k == "str" else [5, 6, 7, 8, 9]), unique=True, max_size=5
        ).map(lambda xs: {"kind": "array", "items": xs})
    )

    @st.composite
    def init_dict(draw):
        items = draw(st.lists(idx, unique=True, min_size=1, max_size=9))
        n_groups = draw(st.integers(1, len(items)))
        leaders = items[:n_groups]
        groups = [[leader, []] for leader in leaders]
        for extra in items[n_groups:]:
            groups[draw(st.integers(0, n_groups - 1))][1].append(extra)
        out = []
        for leader, members in groups:
            include_self = draw(st.booleans())
            pos = draw(st.integers(0, len(members)))
            mem = members[:pos] + ([leader] if include_self else []) + members[pos:]
            out.append([leader, mem])
        # ghost keys: members that also appear as (empty) keys -> "already grouped elsewhere"
        ghosts = []
        members_all = [m for leader, mem in out for m in mem if m != leader]
        if members_all and draw(st.booleans()):
            ghosts = draw(st.lists(st.sampled_from(members_all), unique=True, max_size=2))
        for ghost in ghosts:
            out.insert(draw(st.integers(0, len(out))), [ghost, []])
        return {"kind": "dict", "pairs": out}

    init = st.one_of(init_list, init_list, init_dict(), init_array)

    op = st.one_of(
        st.tuples(st.just("group"), sel, sel),
        st.tuples(st.just("group"), sel, sel),
        st.tuples(st.just("group_list"), st.lists(sel, min_size=1, max_size=3), sel),
        st.tuples(st.just("append"), sel),
        st.tuples(st.just("append"), sel),
        st.tuples(st.just("update"), st.lists(st.tuples(st.integers(-3, 11), st.lists(sel, max_size=2)), min_size=1, max_size=3)),
        st.tuples(st.just("split"), sel, st.integers(1, 62)),
        st.tuples(st.just("remove"), sel),
        st.tuples(st.just("pop"), sel),
        st.tuples(st.just("sort")),
        st.tuples(st.just("sort_by"), st.integers(0, 10**6)),
        st.tuples(st.just("replace"), sel, sel),
        st.tuples(st.just("replace"), sel, sel),
        st.tuples(st.just("copy")),
        st.tuples(st.just("dict_roundtrip")),
        st.tuples(st.just("get_default"), idx, st.sampled_from(["none", "scalar", "list"])),
        st.tuples(st.just("bad_group"), idx, sel, st.booleans()),
        st.tuples(st.just("bad_replace"), sel, idx),
        st.tuples(st.just("bad_remove"), idx),
        st.tuples(st.just("bad_pop"), st.integers(0, 3)),
        st.tuples(st.just("bad_sort_by"), st.sampled_from(["missing", "unknown"])),
    )
    return st.fixed_dictionaries({"universe": st.just("full"), "init": init, "ops": st.lists(op, min_size=1, max_size=25)})


# ----------------------------------------------------------------------------- interpretation
def universe_of(case):
    return SMALL if case.get("universe") == "small" else UNIVERSE


def build_init(init, univ):
    GroupedList = _gl()
    if init["kind"] == "list":
        items = [univ[i] for i in init["items"]]
        return observe(GroupedList, list(items)), Model.from_list(items)
    if init["kind"] == "array":
        items = [univ[i] for i in init["items"]]
        arr = np.array(items) if items else np.array([], dtype=float)
        return observe(GroupedList, arr), Model.from_list(items)
    pairs = [(univ[k], [univ[m] for m in mem]) for k, mem in init["pairs"]]
    dic = {k: list(mem) for k, mem in pairs}
    return observe(GroupedList, dic), Model.from_dict(pairs)


def clone_impl(gl):
    """Independent copy of the implementation state that does not go through the class' own
    copy logic (copy.deepcopy is not usable: it re-appends the items of a list subclass)."""
    new = _gl()(list(gl))
    new.content = {k: list(v) for k, v in gl.content.items()}
    return new


def impl_key(gl):
    return (
        tuple((type(v).__name__, repr(v)) for v in gl),
        tuple((type(k).__name__, repr(k), tuple((type(m).__name__, repr(m)) for m in ms)) for k, ms in gl.content.items()),
    )


def multiset(values):
    return sorted(key_of(v) for v in values)


def check_state(gl, model, univ, where):
    """Structural invariants + agreement with the model. Returns (signature, message) or None."""
    leaders = list(gl)
    m_leaders = model.leaders()
    if len(leaders) != len(m_leaders) or not all(same(a, b) for a, b in zip(leaders, m_leaders)):
        return ("list-differs-from-model", f"{where}: list {leaders!r} != model {m_leaders!r}")
    if len({key_of(v) for v in leaders}) != len(leaders):
        return ("duplicate-leaders", f"{where}: leaders not unique {leaders!r}")
    content = getattr(gl, "content", None)
    if not isinstance(content, dict):
        return ("no-content", f"{where}: content missing")
    if multiset(content.keys()) != multiset(leaders):
        return ("content-keys-differ-from-list", f"{where}: content keys {list(content)!r} vs list {leaders!r}")
    seen = {}
    for leader, members in content.items():
        if not any(same(leader, m) for m in members):
            return ("leader-not-in-own-group", f"{where}: leader {leader!r} not in its members {members!r}")
        for m in members:
            k = key_of(m)
            if k in seen:
                return ("groups-not-disjoint", f"{where}: value {m!r} in groups {seen[k]!r} and {leader!r}")
            seen[k] = leader
    for leader in m_leaders:
        got = observe(gl.get, leader)
        if not got.ok or multiset(got.value) != multiset(model.members(leader)):
            return ("get-differs-from-model", f"{where}: get({leader!r}) = {got.value!r}/{got.exc!r} vs model {model.members(leader)!r}")
    got = observe(gl.values)
    if not got.ok or multiset(got.value) != multiset(model.values()):
        return ("values-differs-from-model", f"{where}: values() = {got.value!r}/{got.exc!r} vs model {model.values()!r}")
    for probe in list(univ) + [NAN]:
        res = observe(gl.contains, probe)
        if not res.ok or bool(res.value) != model.contains(probe):
            return ("contains-differs-from-model", f"{where}: contains({probe!r}) = {res.value!r}/{res.exc!r} vs model {model.contains(probe)}")
        res = observe(gl.get_group, probe)
        expect = model.get_group(probe)
        if not res.ok or not same(res.value, expect):
            tag = "get_group-falsy-leader" if (model.contains(probe) and not expect and not is_nan(expect)) else "get_group-differs-from-model"
            return (tag, f"{where}: get_group({probe!r}) = {res.value!r}/{res.exc!r} vs model {expect!r}")
        if not model.is_leader(probe) and not is_nan(probe):
            res = observe(gl.get, probe)
            if not res.ok or res.value != []:
                return ("get-nonleader-not-empty", f"{where}: get({probe!r}) = {res.value!r}/{res.exc!r} for a non-leader")
    return None


def free_values(model, univ):
    return [v for v in univ if not model.contains(v)]


def apply_op(gl, model, op, univ):
    """Applies op to implementation and model.
    Returns (gl, model, effective, merged, violation|None, skipped)."""
    name = op[0]
    leaders = model.leaders()
    n = len(leaders)
    before = impl_key(gl)

    def refused_cleanly(res, what):
        if res.ok:
            return ("invalid-op-accepted", f"{what} was accepted (returned {res.value!r})")
        if not isinstance(res.exc, REFUSALS):
            return ("invalid-op-wrong-exception", f"{what} raised {res.exc!r}")
        if impl_key(gl) != before:
            return ("invalid-op-changed-state", f"{what} raised {res.exc!r} but changed the state")
        return None

    def done(res, what, effective=True, merged=False, new_gl=None):
        if not res.ok:
            return gl, model, False, False, (f"valid-op-raised:{name}:{res.exc_type}", f"{what} raised {res.exc!r}"), False
        return (new_gl if new_gl is not None else gl), model, effective, merged, None, False

    skip = (gl, model, False, False, None, True)

    if name == "group":
        if n == 0:
            return skip
        d, k = leaders[op[1] % n], leaders[op[2] % n]
        res = observe(gl.group, d, k)
        merged = not same(d, k)
        model.group(d, k)
        return done(res, f"group({d!r}, {k!r})", effective=merged, merged=merged)
    if name == "group_list":
        if n == 0:
            return skip
        ds, seen = [], set()
        for i in op[1]:
            v = leaders[i % n]
            if key_of(v) not in seen:
                seen.add(key_of(v))
                ds.append(v)
        k = leaders[op[2] % n]
        res = observe(gl.group_list, ds, k)
        merged = any(not same(d, k) for d in ds)
        model.group_list(ds, k)
        return done(res, f"group_list({ds!r}, {k!r})", effective=merged, merged=merged)
    if name == "append":
        free = free_values(model, univ)
        if not free:
            return skip
        v = free[op[1] % len(free)]
        res = observe(gl.append, v)
        model.append(v)
        return done(res, f"append({v!r})")
    if name == "update":
        free = free_values(model, univ)
        pairs, used = [], set()
        for target, extras in op[1]:
            if target < 0 or n == 0:
                cand = [v for v in free if key_of(v) not in used]
                if not cand:
                    continue
                key = cand[(-target) % len(cand)]
                used.add(key_of(key))
                members = [key]
            else:
                key = leaders[target % n]
                if key_of(key) in used:
                    continue
                used.add(key_of(key))
                members = model.members(key)
            for e in extras:
                cand = [v for v in free if key_of(v) not in used]
                if not cand:
                    break
                v = cand[e % len(cand)]
                used.add(key_of(v))
                members = [v] + members
            pairs.append((key, members))
        if not pairs:
            return skip
        res = observe(gl.update, {k: list(m) for k, m in pairs})
        model.update(pairs)
        return done(res, f"update({pairs!r})")
    if name == "split_at":
        leader = leaders[op[1] % n]
        if len(model.members(leader)) < 2:
            return skip
        return apply_op(gl, model, ["split", [l for l in leaders if len(model.members(l)) >= 2].index(leader), op[2]], univ)
    if name == "split":
        # update() with a dict that re-partitions one group: the leader keeps part of its members, one of
        # its former members becomes the key (hence a leader) of the rest
        big = [l for l in leaders if len(model.members(l)) >= 2]
        if not big:
            return skip
        leader = big[op[1] % len(big)]
        members = model.members(leader)
        others = [m for m in members if not same(m, leader)]
        moved = [m for i, m in enumerate(others) if (op[2] >> i) & 1] or [others[0]]
        kept = [m for m in members if not any(same(m, x) for x in moved)]
        pairs = [(leader, kept), (moved[0], moved)]
        res = observe(gl.update, {k: list(m) for k, m in pairs})
        model.update(pairs)
        return done(res, f"update({pairs!r}) [split]")
    if name == "remove":
        if n == 0:
            return skip
        v = leaders[op[1] % n]
        res = observe(gl.remove, v)
        model.remove(v)
        return done(res, f"remove({v!r})")
    if name == "pop":
        if n == 0:
            return skip
        i = op[1] % n
        res = observe(gl.pop, i)
        model.pop(i)
        return done(res, f"pop({i})")
    if name == "sort":
        res = observe(gl.sort)
        new_model = model.sorted()
        if res.ok and not hasattr(res.value, "content"):
            return gl, model, False, False, ("sort-returns-no-groupedlist", f"sort() returned {res.value!r}"), False
        out = done(res, "sort()", new_gl=res.value)
        return (out[0], new_model) + out[2:]
    if name == "sort_by":
        if n == 0:
            return skip
        perms = op[1]
        order = list(leaders)
        # deterministic permutation from the integer (factorial number system)
        perm = []
        pool = list(order)
        code = perms
        while pool:
            code, r = divmod(code, len(pool))
            perm.append(pool.pop(r))
        res = observe(gl.sort_by, list(perm))
        new_model = model.sorted_by(perm)
        if res.ok and not hasattr(res.value, "content"):
            return gl, model, False, False, ("sort_by-returns-no-groupedlist", f"sort_by() returned {res.value!r}"), False
        out = done(res, f"sort_by({perm!r})", new_gl=res.value)
        return (out[0], new_model) + out[2:]
    if name == "replace":
        if n == 0:
            return skip
        leader = leaders[op[1] % n]
        members = model.members(leader)
        member = members[op[2] % len(members)]
        res = observe(gl.replace_group_leader, leader, member)
        model.replace_group_leader(leader, member)
        return done(res, f"replace_group_leader({leader!r}, {member!r})")
    if name == "copy":
        res = observe(_gl(), gl)
        return done(res, "GroupedList(copy)", effective=False, new_gl=res.value)
    if name == "dict_roundtrip":
        dic = {k: list(v) for k, v in gl.content.items()}
        ordered = {k: dic[k] for k in gl}
        res = observe(_gl(), ordered)
        return done(res, "GroupedList(dict(content))", effective=False, new_gl=res.value)
    if name == "get_default":
        v = univ[op[1] % len(univ)]
        default = {"none": None, "scalar": "dflt", "list": ["d1", "d2"]}[op[2]]
        res = observe(gl.get, v, default)
        if model.is_leader(v):
            ok = res.ok and multiset(res.value) == multiset(model.members(v))
        else:
            expect = [] if default is None else (default if isinstance(default, list) else [default])
            ok = res.ok and res.value == expect
        viol = None if ok else ("get-default-wrong", f"get({v!r}, {default!r}) = {res.value!r}/{res.exc!r}")
        return gl, model, False, False, viol, False
    # ---- invalid operations: must be refused, state untouched
    if name == "bad_group":
        free = [v for v in univ if not model.is_leader(v)]
        if not free or n == 0:
            return skip
        bad = free[op[1] % len(free)]
        good = leaders[op[2] % n]
        args = (bad, good) if op[3] else (good, bad)
        res = observe(gl.group, *args)
        return gl, model, False, False, refused_cleanly(res, f"group{args!r} with a non-leader"), False
    if name == "bad_replace":
        if n == 0:
            return skip
        leader = leaders[op[1] % n]
        outsiders = [v for v in univ if not any(same(v, m) for m in model.members(leader))]
        if not outsiders:
            return skip
        bad = outsiders[op[2] % len(outsiders)]
        res = observe(gl.replace_group_leader, leader, bad)
        return gl, model, False, False, refused_cleanly(res, f"replace_group_leader({leader!r}, {bad!r}) with a non-member"), False
    if name == "bad_remove":
        free = [v for v in univ if not model.is_leader(v)]
        if not free:
            return skip
        bad = free[op[1] % len(free)]
        res = observe(gl.remove, bad)
        return gl, model, False, False, refused_cleanly(res, f"remove({bad!r}) of a non-leader"), False
    if name == "bad_pop":
        res = observe(gl.pop, n + op[1])
        return gl, model, False, False, refused_cleanly(res, f"pop({n + op[1]}) out of range"), False
    if name == "bad_sort_by":
        if op[1] == "missing":
            if n == 0:
                return skip
            ordering = leaders[1:]
        else:
            free = [v for v in univ if not model.is_leader(v)]
            if not free:
                return skip
            ordering = leaders + [free[0]]
        res = observe(gl.sort_by, ordering)
        return gl, model, False, False, refused_cleanly(res, f"sort_by({ordering!r}) ({op[1]} value)"), False
    raise ValueError(f"unknown op {op!r}")


def _sig(tag, opname):
    # look-up defects do not depend on the operation that built the state
    if tag.startswith("get_group-") or tag.startswith("contains-"):
        return tag
    return f"{tag}:after:{opname}"


def check_case(case) -> Outcome:
    out = Outcome()
    univ = universe_of(case)
    init_res, model = build_init(case["init"], univ)
    out.label(f"init:{case['init']['kind']}")
    if not init_res.ok:
        out.violate(f"construct-raised:{case['init']['kind']}:{init_res.exc_type}", f"construction from {case['init']!r} raised {init_res.exc!r}")
        return out
    gl = init_res.value
    bad = check_state(gl, model, univ, "after construction")
    if bad:
        out.violate(bad[0], f"{bad[1]} (init {case['init']!r})")
        return out
    effective_ops = merges = 0
    for step, op in enumerate(case["ops"]):
        op = list(op)
        gl, model, effective, merged, viol, skipped = apply_op(gl, model, op, univ)
        if skipped:
            out.label("op-skipped")
            continue
        out.label(f"op:{op[0]}")
        where = f"step {step} {op!r}"
        if viol:
            out.violate(viol[0], f"{where}: {viol[1]}")
            return out
        bad = check_state(gl, model, univ, f"after {where}")
        if bad:
            out.violate(_sig(bad[0], op[0]), bad[1])
            return out
        effective_ops += bool(effective)
        merges += bool(merged)
    if any(not lead and not is_nan(lead) for lead in model.leaders()) and any(len(m) > 1 for _, m in model.groups):
        out.label("falsy-leader-with-members")
    out.nontrivial = merges >= 1 and effective_ops >= 3
    return out


# ----------------------------------------------------------------------------- exhaustive part
def _instances(model, univ):
    leaders = model.leaders()
    n = len(leaders)
    ops = []
    for i in range(n):
        for j in range(n):
            ops.append(["group", i, j])
    if n >= 3:
        ops.append(["group_list", [0, 1], 2])
        ops.append(["group_list", [2, 0], 0])
    free = free_values(model, univ)
    for u in range(len(free)):
        ops.append(["append", u])
    for i in range(n):
        ops.append(["remove", i])
        ops.append(["pop", i])
        for m in range(len(model.members(leaders[i]))):
            ops.append(["replace", i, m])
        if free:
            ops.append(["update", [[i, [0]]]])
        n_others = len(model.members(leaders[i])) - 1
        for mask in range(1, 2 ** min(n_others, 2)):
            ops.append(["split_at", i, mask])
    if free:
        ops.append(["update", [[-1, [0] if len(free) > 1 else []]]])
    ops.append(["sort"])
    for code in range(min(math.factorial(n), 6)) if n else []:
        ops.append(["sort_by", code])
    ops.append(["copy"])
    ops.append(["dict_roundtrip"])
    return ops


def _explore_inits(args):
    """Worker: exhaustive exploration from a chunk of initial lists (own memo table)."""
    inits, depth = args
    from core.findings import Findings

    findings = Findings()
    univ = SMALL
    visited = {}
    stats = {"transitions": 0, "states": 0, "violations": [], "known_hits": {}, "nontrivial": set(), "inits": 0}
    seen_sigs = set()

    def explore(gl, model, remaining, init, path):
        key = (impl_key(gl), model.state_key())
        if visited.get(key, -1) >= remaining:
            return
        if key not in visited:
            stats["states"] += 1
        visited[key] = remaining
        if remaining == 0:
            return
        for op in _instances(model, univ):
            gl2, model2 = clone_impl(gl), model.copy()
            gl2, model2, _, merged, viol, skipped = apply_op(gl2, model2, op, univ)
            if skipped:
                continue
            stats["transitions"] += 1
            bad = viol or check_state(gl2, model2, univ, f"after {op!r}")
            if bad and not viol:
                bad = (_sig(bad[0], op[0]), bad[1])
            if bad:
                sig = bad[0]
                case = {"universe": "small", "init": init, "ops": path + [op]}
                if findings.match_open(PID, sig):
                    stats["known_hits"][sig] = stats["known_hits"].get(sig, 0) + 1
                elif sig not in seen_sigs:
                    seen_sigs.add(sig)
                    stats["violations"].append((sig, bad[1], case))
                continue  # do not explore beyond a broken state
            if merged:
                stats["nontrivial"].add(case_hash([init, path, op]))
            explore(gl2, model2, remaining - 1, init, path + [op])

    for init in inits:
        res, model = build_init(init, univ)
        stats["inits"] += 1
        if not res.ok:
            stats["violations"].append((f"construct-raised:list:{res.exc_type}", repr(res.exc), {"universe": "small", "init": init, "ops": []}))
            continue
        explore(res.value, model, depth, init, [])
    return stats


def extra_run(tier, seed_value, findings):
    import multiprocessing

    depth = BOUNDS["exhaustive_depth"][tier]
    univ = SMALL
    inits = [
        {"kind": "list", "items": list(items)}
        for size in range(0, 4)
        for items in itertools.permutations(range(len(univ)), size)
    ]
    workers = 16
    chunks = [(inits[i::workers * 2], depth) for i in range(workers * 2)]
    with multiprocessing.get_context("fork").Pool(workers) as pool:
        results = pool.map(_explore_inits, chunks)
    total = {"transitions": 0, "states": 0, "violations": [], "known_hits": {}, "nontrivial": set(), "inits": 0}
    sigs = set()
    for stats in results:
        total["transitions"] += stats["transitions"]
        total["states"] += stats["states"]
        total["inits"] += stats["inits"]
        total["nontrivial"] |= stats["nontrivial"]
        for sig, count in stats["known_hits"].items():
            total["known_hits"][sig] = total["known_hits"].get(sig, 0) + count
        for sig, msg, case in stats["violations"]:
            if sig not in sigs:
                sigs.add(sig)
                total["violations"].append((sig, msg, case))
    fuzz = {"evaluations": 0, "violations": [], "note": "coverage-guided part runs in the thorough tier only"}
    if tier == "thorough":
        from fuzz import driver

        fuzz = driver.run("c13", seed_value, runs=60000, jobs=4)
        for sig, msg, case in fuzz["violations"]:
            if sig not in sigs and not findings.match_open(PID, sig):
                sigs.add(sig)
                total["violations"].append((sig, msg, case))
    return {
        "evaluations": total["transitions"] + fuzz["evaluations"],
        "nontrivial": total["nontrivial"],
        "violations": total["violations"],
        "known_hits": total["known_hits"],
        "classes": {"exhaustive_transition": total["transitions"]},
        "coverage": {
            "exhaustive": True,
            "exhaustive_part": {
                "universe": [repr(v) for v in univ],
                "initial_lists": total["inits"],
                "depth": depth,
                "states_expanded": total["states"],
                "transitions": total["transitions"],
                "note": "every valid operation instance from every state reachable in <= depth steps from every "
                "initial list of <= 3 items; prefixes reaching an identical implementation state (types and "
                "member order included) are expanded once per remaining depth and worker; the generated part "
                "is random search, only this bounded part is exhaustive",
            },
            "states": total["states"],
            "transitions": total["transitions"],
            "coverage_guided_part": {"runs": fuzz["evaluations"], "note": fuzz["note"]},
        },
    }
