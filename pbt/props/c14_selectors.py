"""C14 — selectors return the best-ranked, mutually uncorrelated features."""
import math

from hypothesis import strategies as st

from core.outcome import Outcome, discard, observe
from gen.selector_frames import build_frame, feature_names, selector_case
from oracles.mapping import snapshot
from oracles.selector import abs_corr, cramer_tschuprow, eta, kruskal_by, one_minus_r, outlier_ok, prefilter_ok, validity, close

PID = "C14"
RULE = (
    "Frames of 3-8 quantitative and 3-6 qualitative features built as clusters around 2-4 integer latent columns "
    "(copies, negations, rescalings, cubes, noisy mixtures, coarsenings, constants; bins, merged bins, renamed bins, "
    "parity, constants), missing values with feature-specific masks, 40-240 rows; binary / multiclass / continuous "
    "targets; ClassificationSelector (kruskal | R; tschuprowt | cramerv) and RegressionSelector (defaults); filters "
    "spearman | pearson and tschuprowt | cramerv; n_best 1-5; thresh_corr in {1,.9,.7,.5,.3}. Oracle: measures and "
    "inter-feature associations recomputed independently (own chi2 with Yates on 2x2, scipy kruskal / spearmanr on "
    "pairwise-complete rows, ANOVA eta, 1-r), then the validity predicate: distinct input features of the right "
    "type, non-increasing measure, <= n_best, pairwise association <= thresh_corr, every omitted feature justified "
    "(undefined measure / pre-filter, associated above thresh_corr with a better returned feature, or n_best better "
    "features returned); X and y unchanged. Non-trivial: a feature is omitted for correlation and another by the "
    "n_best cut."
)
BOUNDS = {"rows": "40-240", "quantitative": "3-8", "qualitative": "3-6"}
ASSUMPTIONS = [
    "colsample=1 (colsample<1 shuffles with the global RNG: outside a deterministic oracle)",
    "one user measure per type (with the default thresholds a second measure is never evaluated by the package)",
    "comparisons within 1e-9 (relative) of a threshold or of a tie are not judged",
]
BUDGET = {"quick": 1600, "thorough": 60000}
DEADLINE_S = {"quick": 230, "thorough": 3300}


def strategy(tier):
    return st.tuples(
        selector_case(),
        st.fixed_dictionaries(
            {
                "n_best": st.integers(1, 5),
                "thresh_corr": st.sampled_from([1, 0.9, 0.7, 0.5, 0.3]),
                "quant_measure": st.sampled_from(["default", "default", "R", "kruskal+R"]),
                "qual_measure": st.sampled_from(["default", "cramerv", "chi2+cramerv", "chi2+tschuprowt"]),
                "quant_filter": st.sampled_from(["spearman", "spearman", "pearson"]),
                "qual_filter": st.sampled_from(["tschuprowt", "cramerv"]),
                # optional outlier pre-filter in front of the quantitative measures (classification only)
                "outlier": st.sampled_from(["none", "none", "none", "zscore", "iqr"]),
                "thresh_outlier": st.sampled_from([0.004, 0.02, 0.06, 0.3]),
            }
        ),
    ).map(lambda t: dict(t[0], config=t[1]))


def make_selector(case, quant, qual):
    from AutoCarver import selectors as S

    cfg = case["config"]
    kwargs = {}
    regression = case["target"]["kind"] == "continuous"
    if not regression:
        if cfg["quant_measure"] == "R":
            kwargs["quantitative_measures"] = [S.R_measure]
        elif cfg["quant_measure"] == "kruskal+R":
            # two measures: the second is only evaluated when the first stays below its threshold
            kwargs["quantitative_measures"] = [S.kruskal_measure, S.R_measure]
            kwargs["thresh_kruskal"] = 1e12
        if cfg["qual_measure"] == "cramerv":
            kwargs["qualitative_measures"] = [S.cramerv_measure]
        elif cfg["qual_measure"] == "chi2+cramerv":
            kwargs["qualitative_measures"] = [S.chi2_measure, S.cramerv_measure]
            kwargs["thresh_chi2"] = 1e12
        elif cfg["qual_measure"] == "chi2+tschuprowt":
            kwargs["qualitative_measures"] = [S.chi2_measure, S.tschuprowt_measure]
            kwargs["thresh_chi2"] = 1e12
    if not regression and cfg.get("outlier", "none") != "none":
        first = S.zscore_measure if cfg["outlier"] == "zscore" else S.iqr_measure
        kwargs["quantitative_measures"] = [first] + list(kwargs.get("quantitative_measures", [S.kruskal_measure]))
        kwargs["thresh_zscore" if cfg["outlier"] == "zscore" else "thresh_iqr"] = cfg["thresh_outlier"]
    kwargs["quantitative_filters"] = [S.spearman_filter if cfg["quant_filter"] == "spearman" else S.pearson_filter]
    kwargs["qualitative_filters"] = [S.tschuprowt_filter if cfg["qual_filter"] == "tschuprowt" else S.cramerv_filter]
    klass = S.RegressionSelector if regression else S.ClassificationSelector
    n_best = min(cfg["n_best"], len(quant) + len(qual) + 1)
    return klass(n_best=n_best, qualitative_features=list(qual), quantitative_features=list(quant), thresh_corr=cfg["thresh_corr"], **kwargs), n_best


def reference_measures(case, X, y, quant, qual):
    cfg = case["config"]
    regression = case["target"]["kind"] == "continuous"
    m = {}
    second = {}
    for f in quant:
        if not prefilter_ok(X[f]):
            m[f] = float("nan")
        elif not regression and cfg.get("outlier", "none") != "none" and not outlier_ok(X[f], cfg["outlier"], cfg["thresh_outlier"]):
            m[f] = float("nan")  # too many outliers: the following measures are not evaluated, the feature is left out
        elif regression:
            m[f] = one_minus_r(X[f], y)
        elif cfg["quant_measure"] == "R":
            m[f] = eta(X[f], y)
        elif cfg["quant_measure"] == "kruskal+R":
            k, r = kruskal_by(X[f], y), eta(X[f], y)
            m[f] = float("nan") if (math.isnan(k) or math.isnan(r)) else r  # primary ranking measure: the last one
            second[f] = k
        else:
            m[f] = kruskal_by(X[f], y)
    for f in qual:
        if not prefilter_ok(X[f]):
            m[f] = float("nan")
        elif regression:
            ok = X[f].notna()
            m[f] = kruskal_by(y[ok], X[f][ok])
        else:
            v, t = cramer_tschuprow(X[f], y)
            m[f] = v if "cramerv" in cfg["qual_measure"] else t
    if second:
        m["__second__"] = second
    return m


def check_selection(out, case, X, y, quant, qual, returned, n_best, tag=""):
    cfg = case["config"]
    measure = reference_measures(case, X, y, quant, qual)
    regression = case["target"]["kind"] == "continuous"
    ret_quant = [f for f in returned if f in quant]
    ret_qual = [f for f in returned if f in qual]
    if ret_quant + ret_qual != list(returned) and sorted(ret_quant + ret_qual) != sorted(returned):
        out.violate(f"{tag}unknown-features-returned", f"{returned}")
        return measure
    # the falsy-zero defect of distance_measure: a perfectly correlated feature has 1-r == 0, treated as undefined
    if regression:
        zero = [f for f in quant if not math.isnan(measure[f]) and abs(measure[f]) < 1e-12]
        for f in zero:
            if f not in returned:
                out.violate("RegressionSelector/distance_measure/zero-treated-as-undefined", f"{f} has 1-r == 0 (perfectly correlated with y) and is dropped as 'undefined'")
                measure[f] = float("nan")
        # reverse_xy(kruskal_measure) groups the target by the feature's values *including NaN*: the empty NaN
        # group makes the statistic NaN, so a qualitative feature with any missing value is never selectable
        for f in qual:
            if X[f].isna().any() and not math.isnan(measure[f]) and f not in returned:
                out.violate("RegressionSelector/qualitative-feature-with-missing-values/measure-undefined", f"{f} has missing values: its Kruskal measure comes out as NaN and the feature is dropped (recomputed on its non-missing rows: {measure[f]:.6g})")
                measure[f] = float("nan")
    corr_cache = {}

    def assoc_quant(a, b):
        key = tuple(sorted((a, b)))
        if key not in corr_cache:
            corr_cache[key] = abs_corr(X[a], X[b], cfg["quant_filter"])
        return corr_cache[key]

    def assoc_qual(a, b):
        key = tuple(sorted((a, b)))
        if key not in corr_cache:
            v1, t1 = cramer_tschuprow(X[a], X[b])
            corr_cache[key] = v1 if cfg["qual_filter"] == "cramerv" else t1
        return corr_cache[key]

    second = measure.pop("__second__", None)
    if second is None or regression:
        validity(ret_quant, quant, measure, assoc_quant, n_best, cfg["thresh_corr"], out, f"{tag}quantitative")
    else:
        two_measure_reference(ret_quant, quant, measure, second, assoc_quant, n_best, cfg["thresh_corr"], out, f"{tag}quantitative")
    validity(ret_qual, qual, measure, assoc_qual, n_best, cfg["thresh_corr"], out, f"{tag}qualitative")
    # classes for the evidence
    for feats, ret, assoc in ((quant, ret_quant, assoc_quant), (qual, ret_qual, assoc_qual)):
        defined = [f for f in feats if not math.isnan(measure[f])]
        if len(ret) >= n_best and len(defined) > len(ret):
            out.label("omitted-by-n_best-cut")
        for f in defined:
            if f not in ret and any((not math.isnan(assoc(f, g))) and assoc(f, g) > cfg["thresh_corr"] for g in ret):
                out.label("omitted-for-correlation")
                break
    return measure


def greedy(features, m, assoc, thresh, n_best):
    """Reference greedy filter on one measure. Returns (selection, ambiguous)."""
    defined = [f for f in features if not math.isnan(m[f])]
    order = sorted(defined, key=lambda f: -m[f])
    ambiguous = any(close(m[a], m[b]) for a, b in zip(order, order[1:]))
    kept = []
    for f in order:
        worst = 0.0
        for g in kept:
            c = assoc(f, g)
            if not math.isnan(c):
                worst = max(worst, c)
        if abs(worst - thresh) <= 1e-9:
            ambiguous = True
        if worst > thresh:
            continue
        kept.append(f)
    return kept[:n_best], ambiguous


def two_measure_reference(returned, features, primary, second, assoc, n_best, thresh, out, tag):
    """[kruskal_measure, R_measure]: n_best per measure after the greedy filter on each ranking, union reported
    in the order of the initial ranking (last measure first)."""
    feats = [f for f in features if not math.isnan(primary[f])]
    sel_r, amb_r = greedy(feats, primary, assoc, thresh, n_best)
    sel_k, amb_k = greedy(feats, {f: second[f] for f in feats}, assoc, thresh, n_best)
    out.label("two-measures")
    # an infinite Kruskal-Wallis statistic (constant feature with missing values) does not stay below the gate
    # threshold, so the second measure is never evaluated for it: outside what this reference models
    infinite = any(math.isinf(v) for v in second.values())
    if amb_r or amb_k or infinite:
        out.label("two-measures-ambiguous")
        if len(set(returned)) != len(returned) or any(f not in features for f in returned) or len(returned) > 2 * n_best:
            out.violate(f"{tag}:two-measures:malformed-result", f"{returned}")
        return
    union = set(sel_r) | set(sel_k)
    expected = sorted(union, key=lambda f: (-primary[f], -second[f]))
    if set(returned) != union:
        out.violate(f"{tag}:two-measures:selection-differs-from-reference", f"returned {returned}; reference: best by R {sel_r}, best by kruskal {sel_k} (n_best={n_best} per measure, thresh_corr={thresh})")
    elif list(returned) != expected:
        out.violate(f"{tag}:two-measures:order-differs-from-reference", f"returned {returned}, expected {expected}")


def check_case(case) -> Outcome:
    out = Outcome()
    cfg = case["config"]
    X, y = build_frame(case)
    quant, qual = feature_names(case, X)
    out.label(f"target:{case['target']['kind']}", f"thresh_corr:{cfg['thresh_corr']}")
    if cfg.get("outlier", "none") != "none" and case["target"]["kind"] != "continuous":
        out.label(f"outlier-prefilter:{cfg['outlier']}")
    made = observe(make_selector, case, quant, qual)
    if not made.ok:
        if isinstance(made.exc, AssertionError):
            return discard("selector-init-refused", out.labels)
        raise made.exc
    selector, n_best = made.value
    before = (snapshot(X), snapshot(y))
    Xc, yc = X.copy(), y.copy()
    res = observe(selector.select, Xc, yc)
    if not res.ok:
        out.violate(f"select-raised:{res.bucket()}", f"select raised {res.exc!r}")
        return out
    if (snapshot(Xc), snapshot(yc)) != before:
        out.violate("select-modified-its-inputs", "X or y changed during select")
    check_selection(out, case, X, y, quant, qual, list(res.value), n_best)
    out.nontrivial = "omitted-for-correlation" in out.labels and "omitted-by-n_best-cut" in out.labels
    if any(r["nan"] for r in case["quant"]):
        out.label("quantitative-nan-masks")
    return out
