"""C15 — feature selection is invariant under re-encodings that keep the information."""
import math
import random

import numpy as np
import pandas as pd
from hypothesis import strategies as st

from core.outcome import Outcome, discard, observe
from gen.selector_frames import build_frame, feature_names, selector_case
from oracles.selector import abs_corr, close, cramer_tschuprow, ge_close
from props.c14_selectors import make_selector, reference_measures

PID = "C15"
RULE = (
    "C14's cluster frames and, for each, 1-3 re-encodings: negate a quantitative feature; multiply it by a positive "
    "power of two; rename the categories of a qualitative feature by a random bijection; permute the rows (with y); "
    "permute the DataFrame columns. Plus the planted-feature variant: one feature is an exact copy / affine image / "
    "cube / exp of the target (quantitative) or a relabelling of it (qualitative). ClassificationSelector and "
    "RegressionSelector, default and user-supplied measures and filters, thresh_corr in {1,.9,.7,.5,.3}. Oracle "
    "(metamorphic): select returns the same list in the same order on both encodings; a difference that only "
    "involves features whose independently recomputed measures tie within 1e-9 is counted as tie_ambiguous, not as "
    "a violation; a planted feature that passes the nan/mode pre-filters must be returned. Non-trivial: the "
    "re-encoded feature is among the returned features or the first omitted ones of the base selection."
)
BOUNDS = {"rows": "40-240", "quantitative": "3-8", "qualitative": "3-6", "selections_per_case": "2-4"}
ASSUMPTIONS = ["row permutations change floating-point summation order: exact ties of recomputed measures are not judged"]
BUDGET = {"quick": 1500, "thorough": 40000}
DEADLINE_S = {"quick": 230, "thorough": 3300}


def strategy(tier):
    enc = st.one_of(
        st.tuples(st.just("negate"), st.integers(0, 20)),
        st.tuples(st.just("negate"), st.integers(0, 20)),
        st.tuples(st.just("scale"), st.integers(0, 20), st.sampled_from([0.25, 2, 8, 1024, 2.0**-40, 2.0**40])),
        st.tuples(st.just("scale_all"), st.sampled_from([2.0**-40, 2.0**-20, 2.0**10, 2.0**40])),  # every quantitative feature, same unit change
        st.tuples(st.just("rename"), st.integers(0, 20), st.integers(0, 10**6)),
        st.tuples(st.just("rows"), st.integers(0, 10**6)),
        st.tuples(st.just("columns"), st.integers(0, 10**6)),
    )
    cfg = st.fixed_dictionaries(
        {
            "n_best": st.integers(1, 4),
            "thresh_corr": st.sampled_from([1, 0.9, 0.7, 0.5, 0.3]),
            "quant_measure": st.sampled_from(["default", "default", "R"]),
            "qual_measure": st.sampled_from(["default", "cramerv"]),
            "quant_filter": st.sampled_from(["spearman", "spearman", "pearson"]),
            "qual_filter": st.sampled_from(["tschuprowt", "cramerv"]),
            "outlier": st.sampled_from(["none", "none", "none", "zscore", "zscore", "iqr"]),
            "thresh_outlier": st.sampled_from([0.004, 0.01, 0.02, 0.06, 0.3]),
        }
    )
    return st.tuples(st.booleans().flatmap(lambda p: selector_case(planted=p)), cfg, st.lists(enc, min_size=1, max_size=3)).map(
        lambda t: dict(t[0], config=t[1], encodings=t[2])
    )


def run_select(case, X, y, quant, qual):
    made = observe(make_selector, case, quant, qual)
    if not made.ok:
        return made, None
    selector, n_best = made.value
    return observe(selector.select, X.copy(), y.copy()), n_best


def tie_explains(base, other, measure):
    """True when the two selections differ only through features whose recomputed measures tie."""
    def tied(f):
        return any(g != f and not math.isnan(measure.get(g, float("nan"))) and close(measure[g], measure[f]) for g in measure)

    differing = set(base) ^ set(other)
    if differing:
        return all(f in measure and not math.isnan(measure[f]) and tied(f) for f in differing)
    moved = [f for i, f in enumerate(base) if other[i] != f]
    return all(tied(f) for f in moved)


def threshold_explains(base, other, X, X2, quant, qual, cfg, measure, n_best):
    """True when the difference between the two selections is explained by rounding of an inter-feature
    association at thresh_corr: every feature f present in only one selection must, in the selection L where
    it is absent, either (i) meet a better-or-equally ranked feature g of L whose association with f, computed
    the way the filter computes it, is > thresh_corr on the frame where f is absent and <= thresh_corr on the
    frame where f is present (the two values differing by rounding only, < 1e-9), or (ii) be beaten by n_best
    features of L (it was only displaced by the cut); and (i) must occur at least once."""
    differing = set(base) ^ set(other)
    if not differing:
        return False

    def assoc(frame, f, g):
        if f in quant:
            return abs(float(frame[[g, f]].corr(cfg["quant_filter"]).iloc[0, 1]))
        v, t = cramer_tschuprow(frame[f], frame[g])
        return v if cfg["qual_filter"] == "cramerv" else t

    on_threshold = False
    thr = cfg["thresh_corr"]
    for f in differing:
        if math.isnan(measure.get(f, float("nan"))):
            return False
        absent_from, frame_absent, frame_present = (other, X2, X) if f in base else (base, X, X2)
        same = [g for g in absent_from if (g in quant) == (f in quant)]
        better = [g for g in same if not math.isnan(measure[g]) and ge_close(measure[g], measure[f])]
        hit = False
        for g in better:
            ca, cp = assoc(frame_absent, f, g), assoc(frame_present, f, g)
            if not math.isnan(ca) and not math.isnan(cp) and ca > thr >= cp and abs(ca - cp) <= 1e-9:
                hit = True
                break
        if hit:
            on_threshold = True
        elif len(better) < n_best:
            return False
    return on_threshold


def check_case(case) -> Outcome:
    out = Outcome()
    cfg = case["config"]
    X, y = build_frame(case)
    quant, qual = feature_names(case, X)
    regression = case["target"]["kind"] == "continuous"
    out.label(f"target:{case['target']['kind']}")
    base, n_best = run_select(case, X, y, quant, qual)
    if not base.ok:
        if isinstance(base.exc, AssertionError):
            return discard("selector-refused", out.labels)
        out.violate(f"select-raised:{base.bucket()}", f"select raised {base.exc!r}")
        return out
    base_list = list(base.value)
    measure = reference_measures(case, X, y, quant, qual)
    default_distance = regression  # RegressionSelector's default quantitative measure is 1 - r

    # ---- planted feature: exact copy / monotone image of the target must be selected
    planted = case.get("planted")
    if planted:
        out.label(f"planted:{planted}")
        out.nontrivial = True
        for f in [c for c in ("x_planted", "c_planted") if c in X.columns]:
            if f not in base_list:
                same_type = quant if f.startswith("x") else qual
                mf = measure.get(f, float("nan"))
                if math.isnan(mf):
                    out.label("planted-fails-prefilter")
                    continue
                rivals = [g for g in same_type if g != f and not math.isnan(measure[g]) and ge_close(measure[g], mf)]
                if not (f.startswith("x") and default_distance) and (len(rivals) >= n_best or any(g in base_list for g in rivals)):
                    # other features tie with (or beat) the planted one: which of them is returned is not fixed
                    out.label("tie_ambiguous")
                    continue
                if f.startswith("x") and default_distance:
                    sig = f"RegressionSelector/float/distance_measure/planted-{'copy' if planted in ('copy', 'affine') else 'monotone'}"
                else:
                    sig = f"planted-feature-not-selected:{'quantitative' if f.startswith('x') else 'qualitative'}:{planted}"
                out.violate(sig, f"{f} ({planted} of the target) is not among the selected features {base_list} (n_best={n_best})")

    ranked = [f for f in sorted(measure, key=lambda f: (-(measure[f]) if not math.isnan(measure[f]) else float('inf')))]
    encodings = [list(e) for e in case["encodings"]]
    if cfg.get("outlier", "none") != "none" and not regression and not any(e[0] == "scale_all" for e in encodings):
        # an outlier pre-filter is a statement about the feature's own scale: always look at a change of unit
        encodings.append(["scale_all", [2.0**-40, 2.0**40][case["key"] % 2]])
    for enc in encodings:
        enc = list(enc)
        X2, y2 = X.copy(), y.copy()
        touched = None
        if enc[0] == "negate":
            touched = quant[enc[1] % len(quant)]
            X2[touched] = -X2[touched]
        elif enc[0] == "scale":
            touched = quant[enc[1] % len(quant)]
            X2[touched] = X2[touched] * enc[2]
        elif enc[0] == "scale_all":
            for q in quant:
                X2[q] = X2[q] * enc[1]
        elif enc[0] == "rename":
            touched = qual[enc[1] % len(qual)]
            values = sorted(v for v in set(X2[touched].dropna().tolist()))
            names = [f"z{i}" for i in range(len(values))]
            random.Random(enc[2]).shuffle(names)
            mapping = dict(zip(values, names))
            X2[touched] = X2[touched].map(lambda v: v if (isinstance(v, float) and math.isnan(v)) else mapping[v]).astype(object)
        elif enc[0] == "rows":
            perm = list(range(len(X2)))
            random.Random(enc[1]).shuffle(perm)
            X2, y2 = X2.iloc[perm].reset_index(drop=True), y2.iloc[perm].reset_index(drop=True)
        else:
            cols = list(X2.columns)
            random.Random(enc[1]).shuffle(cols)
            X2 = X2[cols]
        res, _ = run_select(case, X2, y2, quant, qual)
        out.label(f"enc:{enc[0]}")
        if not res.ok:
            out.violate(f"re-encoded-select-raised:{enc[0]}:{res.bucket()}", f"{enc!r}: {res.exc!r}")
            continue
        other = list(res.value)
        if touched is not None and (touched in base_list or touched in ranked[: len(base_list) + 2]):
            out.nontrivial = True
        if enc[0] in ("rows", "columns", "scale_all") and base_list:
            out.nontrivial = True
        if other == base_list:
            continue
        if tie_explains(base_list, other, measure):
            out.label("tie_ambiguous")
            continue
        if threshold_explains(base_list, other, X, X2, quant, qual, cfg, measure, n_best):
            # an inter-feature association sits on thresh_corr up to rounding (e.g. |rho| of two monotone
            # copies computed as 1.0000000000000002 in one row order and 1.0 in the other)
            out.label("threshold_ambiguous")
            continue
        differing = set(base_list) ^ set(other)
        perfectly_correlated = [f for f in differing if f in quant and not math.isnan(measure.get(f, float("nan"))) and abs(measure[f]) < 1e-9]
        if enc[0] == "negate" and default_distance and touched in quant:
            sig = "RegressionSelector/float/distance_measure/negation"
        elif default_distance and perfectly_correlated:
            # 1-r of a feature perfectly correlated with y is 0.0 or 2e-16 depending on the summation order:
            # 0.0 is falsy -> 'undefined' -> dropped; the same root cause as the planted-copy finding
            sig = "RegressionSelector/float/distance_measure/planted-copy"
        else:
            sig = f"selection-changed-under-re-encoding:{enc[0]}"
        out.violate(sig, f"{enc!r} (feature {touched}): base selection {base_list} vs re-encoded {other}; n_best={n_best}, thresh_corr={cfg['thresh_corr']}")
    return out
