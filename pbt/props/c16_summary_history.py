"""C16 — summary() and history() truthfully describe the fitted object."""
import math

import numpy as np
import pandas as pd
from hypothesis import strategies as st

from core.outcome import Outcome, discard, observe
from gen.objects import CARVERS, EDIT_STEP, PIPELINES, apply_edits, fit_base_discretizer, fit_object, fitted_case, make_object
from gen.samples import build
from oracles.carving import Aggregate, Search, compositions, groups_of
from oracles.mapping import content_of, eq, is_missing, known_values, ref_group, values_equal
from oracles.views import feature_views
from props.c01_optimal_grouping import bucket_indices

PID = "C16"
RULE = (
    "Fitted carvers (with/without dev, dropna both ways, str/float output) and Discretizer-family objects on "
    "table-first samples. Oracle for summary(): feature index == features; summary(f) == the f-slice of summary() "
    "and mentions f only; qualitative: contents pairwise disjoint, union == known string values, and transforming "
    "a one-row frame holding a listed value yields that row's label; quantitative: one row per label transform can "
    "output, '__NAN__' listed in exactly the row whose label missing values receive. Oracle for history() "
    "(Binary/ContinuousCarver): first record = raw distribution listing every base modality once; stage-1 records "
    "= every consecutive grouping exactly once, each with the measure recomputed by the C01 reference (1e-9); "
    "records after a viable one are 'not checked'; the last record flagged viable is exactly the fitted grouping "
    "(as a partition of base modalities incl. the missing-value placement); history() == concatenation of the "
    "per-feature histories. Half of the objects are then edited by hand (update_discretizer) and summary() "
    "is judged again against the edited object. Non-trivial: a kept feature with a merged group and >= 3 tested combinations."
)
BOUNDS = {"rows": "12-400", "features": "1-3"}
ASSUMPTIONS = [
    "the '__NAN__' row of a quantitative feature under dropna=False is not judged (the statement speaks of merged missing values)",
    "base modalities are those of an identically configured Discretizer",
]
BUDGET = {"quick": 900, "thorough": 25000}
DEADLINE_S = {"quick": 220, "thorough": 3300}
CLASSES = ("BinaryCarver", "ContinuousCarver", "BinaryCarver", "ContinuousCarver", "MulticlassCarver", "Discretizer", "QuantitativeDiscretizer", "QualitativeDiscretizer")
STR_NAN, STR_DEFAULT = "__NAN__", "__OTHER__"
INF = float("inf")


def strategy(tier):
    # half of the objects are also edited by hand (update_discretizer) after the fit-time checks: summary() has
    # to describe the object as it then is (history() stays the fit-time record and is only judged before the edits)
    edits = st.one_of(st.just([]), st.lists(EDIT_STEP, min_size=1, max_size=3))
    return st.tuples(fitted_case(CLASSES), edits).map(lambda t: dict(t[0], edits=t[1]))


def one_row_frame(sample, raw, value):
    full = sample.X.dropna()
    src = (full.iloc[[0]] if len(full) else sample.X.iloc[[0]]).copy()
    if sample.specs[raw]["kind"] in ("continuous", "discrete"):
        src[raw] = pd.Series([value], index=src.index, dtype=float)
    else:
        src[raw] = pd.Series([value], index=src.index, dtype=object)
    return src


def interval_upper(text):
    """Upper bound written in a summary interval ('x <= b', 'a < x <= b', 'a < x'); None when unreadable."""
    import re

    m = re.fullmatch(r"(?:(\S+) < )?x(?: <= (\S+))?", text.strip())
    if not m or (m.group(1) is None and m.group(2) is None):
        return None
    try:
        return float(m.group(2)) if m.group(2) is not None else INF
    except ValueError:
        return None


def lab_key(lab):
    if is_missing(lab):
        return ("nan",)
    return lab if isinstance(lab, str) else float(lab)


def check_summary(out, obj, case, sample, dropna_all, labelled_nan=()):
    feats = list(obj.features)
    summ = observe(obj.summary)
    if not summ.ok:
        out.violate(f"summary-raised:{summ.bucket()}", f"summary() raised {summ.exc!r}")
        return
    table = summ.value
    listed = list(table.index.get_level_values("feature"))
    if set(listed) != set(feats):
        out.violate("summary-features-differ", f"summary lists {sorted(set(listed))} vs features {sorted(feats)}")
        return
    for feat, raw, spec in feature_views(obj, case):
        dropna = dropna_all or feat in labelled_nan
        one = observe(obj.summary, feat)
        if not one.ok:
            out.violate(f"summary-of-feature-raised:{one.bucket()}", f"summary({feat!r}) raised {one.exc!r}")
            continue
        others = sorted(set(one.value.index.get_level_values("feature")) - {feat})
        if others:
            out.violate("summary-of-feature-mentions-other-features", f"summary({feat!r}) has rows of {others}")
            continue
        rows_all = [(lab_key(r["label"]), sorted(map(repr, r["content"]))) for _, r in table.loc[[f == feat for f in listed]].iterrows()]
        rows_one = [(lab_key(r["label"]), sorted(map(repr, r["content"]))) for _, r in one.value.iterrows()]
        if sorted(rows_all, key=repr) != sorted(rows_one, key=repr):
            out.violate("summary-of-feature-differs-from-slice", f"{feat}: summary(f) {rows_one[:3]} vs slice {rows_all[:3]}")
            continue
        order = obj.values_orders[feat]
        rows = [(r["label"], list(r["content"])) for _, r in one.value.iterrows()]
        quantitative = spec["kind"] in ("continuous", "discrete")
        has_nan = any(isinstance(k, str) and k == STR_NAN for k in known_values(order))
        if not quantitative:
            seen = {}
            for lab, content in rows:
                for v in content:
                    if repr(v) in seen:
                        out.violate("summary-contents-not-disjoint", f"{feat}: value {v!r} listed under {seen[repr(v)]!r} and {lab!r}")
                    seen[repr(v)] = lab
            expected = {m for m in known_values(order) if isinstance(m, str) and m != STR_DEFAULT and not (m == STR_NAN and not dropna)}
            got = {v for _, content in rows for v in content}
            if got != expected:
                out.violate("summary-content-is-not-the-known-values", f"{feat}: listed {sorted(map(repr, got))[:12]} vs known {sorted(map(repr, expected))[:12]}")
                continue
            for lab, content in rows:
                for v in content[:6]:
                    probe = one_row_frame(sample, raw, np.nan if v == STR_NAN else v)
                    tr = observe(obj.transform, probe)
                    if not tr.ok:
                        out.violate(f"summary-value-rejected-by-transform:{tr.exc_type}", f"{feat}: listed value {v!r} -> {tr.exc!r}")
                        break
                    got_lab = tr.value[feat].iloc[0]
                    if not values_equal(got_lab, lab):
                        out.violate("summary-label-differs-from-transform:qualitative", f"{feat}: value {v!r} listed under {lab!r} but transform gives {got_lab!r}")
                        break
        else:
            finite = [float(l) for l in order if not isinstance(l, str) and l != INF]
            probes = finite + [1e308]
            frame = pd.concat([one_row_frame(sample, raw, p) for p in probes], ignore_index=True)
            tr = observe(obj.transform, frame)
            if not tr.ok:
                out.violate(f"probe-transform-raised:{tr.bucket()}", f"{feat}: {tr.exc!r}")
                continue
            outputs = {lab_key(v) for v in tr.value[feat].tolist()}
            nan_label = None
            if has_nan:
                trn = observe(obj.transform, one_row_frame(sample, raw, np.nan))
                if trn.ok:
                    nan_label = lab_key(trn.value[feat].iloc[0])
            listed_labels = [lab_key(lab) for lab, _ in rows]
            nan_rows = [lab_key(lab) for lab, content in rows if STR_NAN in content]
            if len(set(listed_labels)) != len(listed_labels):
                out.violate("summary-duplicate-labels", f"{feat}: labels {listed_labels}")
            judged = set(listed_labels)
            expected = set(outputs)
            if has_nan and dropna and nan_label is not None:
                expected.add(nan_label)
            if has_nan and not dropna:
                judged -= set(nan_rows) - outputs  # the own row of un-merged missing values is not judged
            if judged != expected:
                out.violate("summary-rows-are-not-the-fitted-groups:quantitative", f"{feat}: summary labels {sorted(map(repr, judged))} vs labels transform outputs {sorted(map(repr, expected))}")
                continue
            # each row describes the interval its label stands for: walking the rows by the upper bound written in
            # their content must give the labels transform outputs on increasing values (rows whose written bounds
            # collide after formatting are not judged)
            uppers = []
            for lab, content in rows:
                texts = [c for c in content if isinstance(c, str) and c != STR_NAN]
                bound = interval_upper(texts[0]) if len(texts) == 1 else None
                if texts and bound is None:
                    uppers = None
                    break
                if texts:
                    uppers.append((bound, lab_key(lab)))
            sequence = []
            for v in tr.value[feat].tolist():
                if lab_key(v) not in sequence:
                    sequence.append(lab_key(v))
            if uppers and len({b for b, _ in uppers}) == len(uppers):
                described = [lab for _, lab in sorted(uppers, key=lambda t: t[0])]
                if described != sequence:
                    out.violate("summary-intervals-not-those-of-transform:quantitative", f"{feat}: rows by written upper bound give labels {described!r} but increasing probes {probes!r} are transformed to {sequence!r}")
                    continue
                out.label("summary:interval-order-judged")
            if has_nan and dropna:
                if nan_rows != [nan_label]:
                    out.violate("summary-missing-values-not-in-their-group", f"{feat}: '__NAN__' listed under {nan_rows!r} but transform sends missing values to {nan_label!r}; rows {rows!r}")
                out.label("summary:nan-merged" if any(len(c) > 1 for lab, c in rows if STR_NAN in c) else "summary:nan-own-group")


def history_partition(combination, name_to_bucket):
    groups = []
    for group in combination:
        idxs = []
        for name in group:
            b = name_to_bucket(name)
            if b is None:
                return None
            if b not in idxs:
                idxs.append(b)
        groups.append(sorted(idxs))
    return groups


def check_history(out, obj, case, sample, base):
    cfg = case["config"]
    kind = case["target"]["kind"]
    sort_by = cfg["sort_by"]
    whole = observe(obj.history)
    if not whole.ok or whole.value is None:
        out.violate("history-unavailable", f"history() -> {whole.exc!r}")
        return
    for feat, raw, spec in feature_views(obj, case):
        hres = observe(obj.history, feat)
        if not hres.ok:
            out.violate(f"history-of-feature-raised:{hres.bucket()}", f"history({feat!r}) raised {hres.exc!r}")
            continue
        hist = hres.value
        sub = whole.value[whole.value["feature"] == feat]
        if len(sub) != len(hist) or [str(c) for c in sub["combination"]] != [str(c) for c in hist["combination"]]:
            out.violate("history-is-not-the-concatenation-of-feature-histories", f"{feat}: {len(sub)} rows in history() vs {len(hist)} in history(f)")
        if feat not in base.features:
            continue
        quantitative = spec["kind"] in ("continuous", "discrete")
        border = base.values_orders[feat]
        buckets, k = bucket_indices(border, sample.X[feat].tolist(), quantitative)
        if buckets is None or k < 2:
            continue
        records = hist.to_dict("records")
        if not records or records[0].get("viability_message") != ["Raw X distribution"]:
            out.violate("history-first-record-is-not-the-raw-distribution", f"{feat}: first record {str(records[:1])[:200]}")
            continue
        raw_names = [name for group in records[0]["combination"] for name in group]
        has_nan = any(b < 0 for b in buckets)
        if quantitative:
            labels = [n for n in raw_names if n != STR_NAN]
            if len(labels) != k or len(set(labels)) != k:
                out.violate("history-raw-record-does-not-list-every-base-modality-once", f"{feat}: raw record lists {labels} for {k} base buckets")
                continue
            index = {n: i for i, n in enumerate(labels)}

            def name_to_bucket(name, index=index):
                if name == STR_NAN:
                    return k
                return index.get(name)
        else:
            non_nan = [l for l in border if not (isinstance(l, str) and l == STR_NAN)]

            def name_to_bucket(name, border=border, non_nan=non_nan):
                if isinstance(name, str) and name == STR_NAN:
                    return k
                pos, lead = ref_group(border, name, False, STR_NAN)
                if pos is None:
                    return None
                for i, l in enumerate(non_nan):
                    if eq(l, lead):
                        return i
                return None
        raw_part = history_partition(records[0]["combination"], name_to_bucket)
        want = [[i] for i in range(k)] + ([[k]] if has_nan else [])
        if raw_part is None or sorted(raw_part) != want:
            out.violate("history-raw-record-does-not-list-every-base-modality-once", f"{feat}: raw record maps to {raw_part} for {k} base buckets (missing: {has_nan})")
            continue
        y = sample.y.tolist()
        train = Aggregate(kind, k, buckets, y)
        search = Search(kind, sort_by, k, train, None, 0.0, cfg["max_n_mod"])
        stage1, stage2 = [], []
        seen_viable = {False: False, True: False}
        last_viable = None
        n_tested = 0
        for rec in records[1:]:
            if rec.get("removed") is True and not isinstance(rec.get("combination"), list):
                continue
            part = history_partition(rec["combination"], name_to_bucket)
            stage = bool(rec.get("grouping_nan"))
            if part is None:
                out.violate("history-combination-unknown-modality", f"{feat}: {rec['combination']!r}")
                break
            flat = sorted(i for g in part for i in g)
            if flat != list(range(k)) + ([k] if stage else []):
                out.violate("history-combination-is-not-a-partition-of-the-base-modalities", f"{feat}: {rec['combination']!r} -> {part}")
                break
            if any(g[:-1] != list(range(g[0], g[0] + len(g) - 1)) and [i for i in g if i != k] != list(range(min(g), min(g) + len([i for i in g if i != k]))) for g in part):
                out.violate("history-combination-not-order-contiguous", f"{feat}: {part}")
                break
            measure = rec.get(sort_by)
            ev = search.evaluate(part, with_nan_rows=stage)
            if measure is None or (isinstance(measure, float) and math.isnan(measure)) or abs(measure - ev["measure"]) > 1e-9 * max(1.0, abs(ev["measure"])):
                out.violate(f"history-measure-differs-from-recomputation:{sort_by}", f"{feat}: combination {part} recorded {measure!r} vs recomputed {ev['measure']!r}")
                break
            viab = rec.get("viability")
            viab = None if (viab is None or (isinstance(viab, float) and math.isnan(viab))) else bool(viab)
            if seen_viable[stage] and viab is not None:
                out.violate("history-record-after-viable-one-is-not-'not-checked'", f"{feat}: {part} has viability {viab} after a viable record")
                break
            if viab is not None:
                n_tested += 1
            if viab is True:
                seen_viable[stage] = True
                last_viable = (part, stage)
            (stage2 if stage else stage1).append(part)
        else:
            keys = [tuple(map(tuple, p)) for p in stage1]
            allc = {tuple(map(tuple, groups_of(c, k))) for c in compositions(k, cfg["max_n_mod"])}
            if len(keys) != len(set(keys)) or set(keys) != allc:
                out.violate("history-stage1-is-not-every-grouping-exactly-once", f"{feat}: {len(keys)} records ({len(set(keys))} distinct) vs {len(allc)} consecutive groupings of {k} buckets")
                continue
            # fitted grouping from values_orders
            order = obj.values_orders[feat]
            fitted = []
            nan_in = None
            for l in order:
                members = content_of(order, l)
                if quantitative:
                    idxs = set()
                    for m in members:
                        if isinstance(m, str):
                            continue
                        pos, _ = ref_group(border, m if m != INF else 1e308, True, STR_NAN)
                        non_nan_pos = [i for i, bl in enumerate(border) if not isinstance(bl, str)]
                        if pos in non_nan_pos:
                            idxs.add(non_nan_pos.index(pos))
                else:
                    idxs = {name_to_bucket(m) for m in members if not (isinstance(m, str) and m == STR_NAN)} - {None, k}
                grp = sorted(idxs)
                if any(isinstance(m, str) and m == STR_NAN for m in members):
                    nan_in = len(fitted)
                    if cfg["dropna"] and has_nan:
                        grp = grp + [k]
                if grp:
                    fitted.append(grp)
            if last_viable is None:
                out.violate("history-has-no-viable-record-for-a-kept-feature", f"{feat}: kept but no record is flagged viable")
                continue
            if sorted(map(sorted, fitted)) != sorted(map(sorted, last_viable[0])):
                out.violate("history-last-viable-record-is-not-the-fitted-grouping", f"{feat}: last viable {last_viable[0]} (nan stage {last_viable[1]}) vs fitted {fitted}")
            if n_tested >= 3 and any(len(g) > 1 for g in fitted):
                out.nontrivial = True
            out.label("history-checked")
            if stage2:
                out.label("history-stage2")


def check_case(case) -> Outcome:
    out = Outcome()
    cfg = case["config"]
    cls = cfg["cls"]
    out.label(f"cls:{cls}")
    sample = build(case)
    obj = make_object(case)
    res = fit_object(obj, case, sample)
    if not res.ok:
        return discard(f"fit-raised:{res.exc_type}", out.labels)
    if not list(obj.features):
        return discard("no-feature-kept", out.labels)
    dropna = cfg.get("dropna", True) if cls in CARVERS else True
    check_summary(out, obj, case, sample, dropna)
    if cls in ("BinaryCarver", "ContinuousCarver"):
        base = fit_base_discretizer(case, sample)
        if base.ok:
            check_history(out, obj, case, sample, base.value)
    else:
        # summary-only objects: non-trivial when some group merges several values
        out.nontrivial = any(len(content_of(obj.values_orders[f], l)) > 1 for f in obj.features for l in obj.values_orders[f])
    if case.get("edits") and cls != "MulticlassCarver" and out.status == "ok":
        ok, labelled_nan, edit_labels = apply_edits(obj, case, case["edits"])
        if ok and edit_labels:  # edits that raise are C17's subject
            out.label(*edit_labels)
            check_summary(out, obj, case, sample, dropna, labelled_nan)
    return out
