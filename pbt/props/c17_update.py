"""C17 — manual edits through update_discretizer are applied coherently."""
import json

import numpy as np
import pandas as pd
from hypothesis import strategies as st

from core.outcome import Outcome, discard, observe
from gen.objects import fit_object, fitted_case, make_object
from gen.samples import build
from oracles.mapping import content_of, eq, factorize, frames_equal, is_missing, ref_group, values_equal
from oracles.views import feature_views
from props.c04_mapping import check_mapping
from props.c16_summary_history import check_summary

PID = "C17"
RULE = (
    "Histories as data: a fitted Binary/Continuous/MulticlassCarver (str and float outputs, dropna both ways) "
    "followed by 1-8 edits chosen against the current state: 'group' of two order-adjacent leaders of a "
    "quantitative or ordinal feature (both directions), of any two leaders of a categorical feature; 'group' of "
    "missing values (numpy.nan) into an existing leader for features with and without '__NAN__' at fit; 'replace' "
    "(rename a leader to a fresh name or to one of its members) on qualitative features; occasionally invalid "
    "edits (bad mode, NaN as kept value) that must raise AssertionError and leave the state intact. Oracle: "
    "reference model of the partition of the training rows (+ a probe row with a missing value): after group(d, k) "
    "the rows of d and k share one label that no other row has and the partition of all other rows is unchanged; "
    "after replace the partition is unchanged and ('str') the label is the new name; missing values follow the kept "
    "group; after every edit C04's mapping check, C16's summary check and C06's JSON round trip hold. "
    "Non-trivial: >= 2 effective edits, one involving a merged group or missing values."
)
BOUNDS = {"rows": "12-400", "edits": "1-8"}
ASSUMPTIONS = [
    "'replace' is only issued on qualitative features (renaming a numeric bound would change the partition)",
    "moving missing values that already sit inside another group is not issued (the API only groups leaders)",
]
BUDGET = {"quick": 1200, "thorough": 10000}
DEADLINE_S = {"quick": 230, "thorough": 3300}
STR_NAN = "__NAN__"


def strategy(tier):
    edit = st.one_of(
        st.tuples(st.just("group"), st.integers(0, 5), st.integers(0, 11), st.booleans(), st.integers(0, 11)),
        st.tuples(st.just("group"), st.integers(0, 5), st.integers(0, 11), st.booleans(), st.integers(0, 11)),
        st.tuples(st.just("nan"), st.integers(0, 5), st.integers(0, 11)),
        st.tuples(st.just("nan"), st.integers(0, 5), st.integers(0, 11)),
        st.tuples(st.just("replace"), st.integers(0, 5), st.integers(0, 11), st.integers(0, 5)),
        st.tuples(st.just("replace_nan"), st.integers(0, 5), st.integers(0, 11)),
        st.tuples(st.just("bad_mode"), st.integers(0, 5), st.integers(0, 11)),
        st.tuples(st.just("nan_kept"), st.integers(0, 5), st.integers(0, 11)),
    )
    return st.tuples(
        fitted_case(("BinaryCarver", "ContinuousCarver"), dev_modes=("none",)),
        st.lists(edit, min_size=1, max_size=8),
    ).map(lambda t: dict(t[0], edits=t[1]))


class Frozen:
    """Plain copy of a GroupedList's data (list + content) usable by the reference mapping."""

    def __init__(self, order):
        self.items = list(order)
        self.content = {k: list(v) for k, v in order.content.items()}

    def __iter__(self):
        return iter(self.items)


def state_key(obj):
    return {f: (list(map(repr, o)), {repr(k): list(map(repr, v)) for k, v in o.content.items()}) for f, o in obj.values_orders.items()}


def lab_key(lab):
    return ("nan",) if is_missing(lab) else (lab if isinstance(lab, str) else float(lab))


def check_case(case) -> Outcome:
    out = Outcome()
    cfg = case["config"]
    cls = cfg["cls"]
    out.label(f"cls:{cls}", f"out:{cfg['output_dtype']}", f"dropna:{cfg['dropna']}")
    sample = build(case)
    obj = make_object(case)
    res = fit_object(obj, case, sample)
    if not res.ok:
        return discard(f"fit-raised:{res.exc_type}", out.labels)
    views = list(feature_views(obj, case))
    if not views:
        return discard("no-feature-kept", out.labels)
    from AutoCarver import load_carver

    effective = 0
    interesting = False
    nan_known = {}
    labelled_nan = set()  # features whose missing values get a label although dropna=False (after a NaN edit)
    for feat, raw, spec in views:
        order = obj.values_orders[feat]
        nan_known[feat] = any(isinstance(m, str) and m == STR_NAN for l in order for m in content_of(order, l))
    base = sample.X.copy().reset_index(drop=True)
    full = base.dropna()
    src = (full.iloc[[0]] if len(full) else base.iloc[[0]]).copy()

    def with_nan_row(raw, quantitative):
        row = src.copy()
        row[raw] = np.nan
        frame = pd.concat([base, row], ignore_index=True)
        frame[raw] = frame[raw].astype(float if quantitative else object)
        return frame

    for step, edit in enumerate(case["edits"]):
        edit = list(edit)
        feat, raw, spec = views[edit[1] % len(views)]
        order = obj.values_orders[feat]
        leaders = list(order)
        non_nan = [l for l in leaders if not (isinstance(l, str) and l == STR_NAN)]
        quantitative = spec["kind"] in ("continuous", "discrete")
        categorical = spec["kind"] == "categorical"
        where = f"edit {step} {edit!r} on {feat}"
        prev = Frozen(order)
        snapshot = state_key(obj)

        if edit[0] in ("bad_mode", "nan_kept"):
            if not non_nan:
                continue
            k = non_nan[edit[2] % len(non_nan)]
            r = observe(obj.update_discretizer, feat, "merge", k, k) if edit[0] == "bad_mode" else observe(obj.update_discretizer, feat, "group", k, np.nan)
            if r.ok or type(r.exc) is not AssertionError:
                out.violate(f"invalid-edit-not-refused:{edit[0]}", f"{where}: {'accepted' if r.ok else repr(r.exc)}")
                return out
            if state_key(obj) != snapshot:
                out.violate(f"invalid-edit-changed-state:{edit[0]}", f"{where}: values_orders changed by a refused edit")
                return out
            out.label(f"edit:{edit[0]}")
            continue

        # ---- choose the edit
        if edit[0] == "group":
            if len(non_nan) < 2:
                continue
            if categorical:
                i, j = edit[2] % len(non_nan), edit[4] % len(non_nan)
                if i == j:
                    j = (i + 1) % len(non_nan)
                d, k = non_nan[i], non_nan[j]
            else:
                i = edit[2] % (len(non_nan) - 1)
                d, k = (non_nan[i], non_nan[i + 1]) if edit[3] else (non_nan[i + 1], non_nan[i])
            args = (feat, "group", d, k)
            if quantitative and d > k:
                out.label("group:larger-bound-into-smaller")
        elif edit[0] == "nan":
            if not non_nan:
                continue
            nan_is_leader = any(isinstance(l, str) and l == STR_NAN for l in leaders)
            if nan_known[feat] and not nan_is_leader:
                continue  # already merged into a group: not a valid edit through this API
            d, k = STR_NAN, non_nan[edit[2] % len(non_nan)]
            args = (feat, "group", np.nan, k)
            out.label("edit:nan:" + ("known-at-fit" if nan_known[feat] else "unknown-at-fit"))
        elif edit[0] == "replace_nan":
            # renaming the missing-value group of a qualitative feature
            nan_is_leader = any(isinstance(l, str) and l == STR_NAN for l in leaders)
            if quantitative or not nan_is_leader:
                continue
            d, k = STR_NAN, f"MISSING_{step}"
            args = (feat, "replace", np.nan, k)
            out.label("edit:replace_nan")
        else:  # replace
            if quantitative or not non_nan:
                continue
            d = non_nan[edit[2] % len(non_nan)]
            members = [m for m in content_of(order, d) if isinstance(m, str) and not eq(m, d) and m not in ("__OTHER__", STR_NAN)]
            k = members[edit[3] % len(members)] if (edit[3] % 2 and members) else f"NEW_{step}"
            args = (feat, "replace", d, k)

        # ---- observe before
        before_frame = with_nan_row(raw, quantitative) if nan_known[feat] else base
        after_frame = with_nan_row(raw, quantitative) if (nan_known[feat] or edit[0] == "nan") else base
        rb = observe(obj.transform, before_frame.copy())
        if not rb.ok:
            out.violate(f"transform-raised-before-edit:{rb.bucket()}", f"{where}: transform raised {rb.exc!r}")
            return out
        labels_before = rb.value[feat].tolist()
        leader_before = []
        for v in before_frame[raw].tolist():
            _, lead = ref_group(prev, v, quantitative, STR_NAN)
            leader_before.append(lead)

        r = observe(obj.update_discretizer, *args)
        desc = f"update_discretizer{args!r}"
        if not r.ok:
            out.violate(f"valid-edit-raised:{edit[0]}:{r.bucket()}", f"{where}: {desc} raised {r.exc!r}")
            return out
        effective += 1
        out.label(f"edit:{edit[0]}")
        if edit[0] in ("nan", "replace_nan"):
            nan_known[feat] = True
            interesting = True
            if not cfg["dropna"]:
                labelled_nan.add(feat)
        if any(len(content_of(prev, l)) > 1 for l in (d, k) if not (isinstance(l, str) and l == STR_NAN) and any(eq(l, x) for x in prev.items)):
            interesting = True

        ra = observe(obj.transform, after_frame.copy())
        if not ra.ok:
            out.violate(f"transform-raised-after-edit:{edit[0]}:{ra.bucket()}", f"{where}: after {desc} transform raised {ra.exc!r}")
            return out
        labels_after = ra.value[feat].tolist()
        n_b = len(labels_before)
        rows_d = [i for i, lead in enumerate(leader_before) if lead is not None and eq(lead, d)]
        rows_k = [i for i, lead in enumerate(leader_before) if lead is not None and eq(lead, k)]
        if edit[0] == "nan" and len(labels_after) > n_b:
            rows_d = rows_d + [len(labels_after) - 1]  # the probe row holding the (previously unknown) missing value
        kindtag = "quantitative" if quantitative else spec["kind"]
        if edit[0] in ("group", "nan"):
            merged_rows = rows_d + rows_k
            labs = {lab_key(labels_after[i]) for i in merged_rows}
            if ("nan",) in labs:
                out.violate(f"edited-group-transformed-to-missing:{edit[0]}:{kindtag}", f"{where}: after {desc} rows of the merged group get a missing label ({sum(is_missing(labels_after[i]) for i in merged_rows)} rows)")
                return out
            if len(labs) > 1:
                out.violate(f"discarded-and-kept-group-keep-different-labels:{edit[0]}:{kindtag}", f"{where}: after {desc} the rows of {d!r} and {k!r} carry labels {sorted(map(repr, labs))}; order now {list(obj.values_orders[feat])!r}")
                return out
            if labs:
                merged_label = next(iter(labs))
                outside = [i for i in range(len(labels_after)) if i not in set(merged_rows)]
                clash = [i for i in outside if lab_key(labels_after[i]) == merged_label]
                if clash:
                    out.violate(f"merged-label-shared-with-other-rows:{edit[0]}:{kindtag}", f"{where}: after {desc} {len(clash)} rows outside the two groups also get {merged_label!r}")
                    return out
            others = [i for i in range(n_b) if i not in set(rows_d + rows_k)]
            if factorize([labels_before[i] for i in others]) != factorize([labels_after[i] for i in others]):
                out.violate(f"edit-changed-grouping-of-other-rows:{edit[0]}:{kindtag}", f"{where}: after {desc} the partition of the rows outside {d!r}/{k!r} changed")
                return out
        elif edit[0] == "replace_nan":
            # missing values now carry the new name; everything else keeps its grouping
            nan_rows = [i for i, v in enumerate(after_frame[raw].tolist()) if is_missing(v)]
            labs = {lab_key(labels_after[i]) for i in nan_rows}
            if ("nan",) in labs or len(labs) > 1:
                out.violate("renamed-missing-group-not-labelled", f"{where}: after {desc} rows with missing values get {sorted(map(repr, labs))}")
                return out
            if cfg["output_dtype"] == "str" and labs and next(iter(labs)) != k:
                out.violate("replace-did-not-rename-the-label", f"{where}: after {desc} missing values are labelled {labs!r}")
                return out
            others = [i for i in range(n_b) if i not in set(nan_rows)]
            if factorize([labels_before[i] for i in others]) != factorize([labels_after[i] for i in others]):
                out.violate("edit-changed-grouping-of-other-rows:replace_nan", f"{where}: after {desc} the partition of the other rows changed")
                return out
            if labs and any(lab_key(labels_after[i]) in labs for i in others):
                out.violate("merged-label-shared-with-other-rows:replace_nan", f"{where}: after {desc} non-missing rows share the missing group's label")
                return out
        else:
            if factorize(labels_before) != factorize(labels_after[:n_b]):
                out.violate("replace-changed-the-grouping", f"{where}: after {desc} the partition of the rows changed")
                return out
            if cfg["output_dtype"] == "str" and rows_d:
                got = labels_after[rows_d[0]]
                if not (isinstance(got, str) and got == k):
                    out.violate("replace-did-not-rename-the-label", f"{where}: after {desc} the group's label is {got!r}")
                    return out

        # ---- an edited ordered feature still transforms monotonically (C03's probe, after the edit)
        if cfg["output_dtype"] == "float" and not categorical:
            order_now = obj.values_orders[feat]
            if quantitative:
                finite = [float(l) for l in order_now if not isinstance(l, str) and l != float("inf")]
                xs = sorted({p for b in finite for p in (b, float(np.nextafter(b, np.inf)), float(np.nextafter(b, -np.inf)))} | {-1e308, 1e308})
            else:
                xs = [v for v in spec["ranking"]]
            probe = pd.concat([src] * len(xs), ignore_index=True)
            probe[raw] = pd.Series(xs, dtype=float if quantitative else object)
            pr = observe(obj.transform, probe)
            if pr.ok:
                labs = [l for l in pr.value[feat].tolist() if not is_missing(l)]
                if any(b < a for a, b in zip(labs, labs[1:])):
                    out.violate(f"after-edit:transform-not-monotone:{kindtag}", f"{where}: after {desc} labels along the order are {labs}")
                    return out
        tr = observe(obj.transform, sample.X.copy())
        if not tr.ok:
            out.violate(f"transform-train-raised-after-edit:{tr.bucket()}", f"{where}: {tr.exc!r}")
            return out
        sub = Outcome()
        check_mapping(sub, obj, case, sample, sample.X, tr.value, tag="after-edit:", labelled_nan=labelled_nan)
        for sig, msg in sub.all_violations():
            out.violate(sig, f"{where}: {msg}")
            return out
        sub = Outcome()
        check_summary(sub, obj, case, sample, cfg["dropna"], labelled_nan=labelled_nan)
        for sig, msg in sub.all_violations():
            out.violate(f"after-edit:{sig}", f"{where}: {msg}")
            return out
        dumped = observe(lambda: json.loads(json.dumps(obj.to_json())))
        if not dumped.ok:
            out.violate(f"after-edit:to_json-raised:{dumped.bucket()}", f"{where}: {dumped.exc!r}")
            return out
        loaded = observe(load_carver, dumped.value)
        if not loaded.ok:
            out.violate(f"after-edit:load-raised:{loaded.bucket()}", f"{where}: {loaded.exc!r}")
            return out
        rl = observe(loaded.value.transform, after_frame.copy())
        if rl.ok != ra.ok or (rl.ok and frames_equal(ra.value, rl.value)):
            out.violate("after-edit:reloaded-object-differs", f"{where}: JSON round trip after {desc}: {'raises ' + repr(rl.exc)[:150] if not rl.ok else frames_equal(ra.value, rl.value)}")
            return out
    out.nontrivial = effective >= 2 and interesting
    return out
