"""C18 — ChainedDiscretizer merges rare values only along the supplied hierarchy."""
import random
from fractions import Fraction

import numpy as np
import pandas as pd
from hypothesis import strategies as st

from core.outcome import Outcome, discard, observe
from oracles.mapping import eq, is_missing

PID = "C18"
RULE = (
    "Generated forests with 2-3 levels and uneven fan-out (1-4) in the package's format (level i: parent -> "
    "children + parent), leaves never observed, optional pre-existing values_orders, data over the leaves "
    "(occasionally internal node names, unknown values, missing values, numeric leaves), min_freq in "
    "{.05,.1,.15,.2,.25}, unknown_handling in {raise, drop}; one third of the cases put an intermediate group "
    "exactly at min_freq*n rows split over several rare children. Malformed hierarchies (child missing from the "
    "previous level, group without known child) must raise AssertionError at construction. Oracle: independent "
    "dictionary-based merge with exact counts (level by level, every value of the level rarer than min_freq hands "
    "its mass and members to its parent) -> fitted content must equal the reference partition; every known value "
    "still present; an observed leaf is its own modality iff frequent, else led by an ancestor; unknown values raise "
    "or join the missing values; transform outputs each row's leader (missing stays missing). Non-trivial: a leaf is "
    "merged into a parent and another stays."
)
BOUNDS = {"rows": "20-300", "levels": "2-3", "leaves": "3-14"}
ASSUMPTIONS = ["frequencies compared exactly (count/n vs the decimal min_freq), consistent with float comparison for n <= 400"]
BUDGET = {"quick": 6000, "thorough": 150000}
DEADLINE_S = {"quick": 200, "thorough": 3300}
STR_NAN = "__NAN__"
MIN_FREQS = [0.05, 0.1, 0.15, 0.2, 0.25]


@st.composite
def strategy_case(draw):
    n_leaves = draw(st.integers(3, 14))
    numeric = draw(st.integers(0, 5)) == 0
    leaves = [str(10 + i) for i in range(n_leaves)] if numeric else [f"L{i}" for i in range(n_leaves)]
    n_levels = draw(st.integers(2, 3))
    levels = []
    current = list(leaves)
    for lv in range(n_levels):
        groups = []
        i = 0
        while i < len(current):
            size = draw(st.integers(1, 4))
            groups.append(current[i : i + size])
            i += size
        parents = [f"P{lv}_{g}" for g in range(len(groups))]
        levels.append([[p, list(ch)] for p, ch in zip(parents, groups)])
        current = parents
        if len(current) == 1:
            break
    min_freq = draw(st.sampled_from(MIN_FREQS))
    step = {0.05: 20, 0.1: 10, 0.15: 20, 0.2: 5, 0.25: 4}[min_freq]
    n = step * draw(st.integers(max(1, 20 // step), 300 // step))
    weights = draw(st.lists(st.sampled_from([0, 0, 1, 1, 2, 3, 5, 8, 13]), min_size=n_leaves, max_size=n_leaves))
    if sum(weights) == 0:
        weights[0] = 1
    n_missing = draw(st.sampled_from([0, 0, 0, 1, 3, n // 10]))
    n_unknown = draw(st.sampled_from([0, 0, 0, 1, 2, 5]))
    n_unknown2 = draw(st.sampled_from([0, 0, 1, 3])) if n_unknown else 0
    n_internal = draw(st.sampled_from([0, 0, 0, 2, n // 8]))
    body = n - n_missing - n_unknown - n_unknown2 - n_internal
    from gen.samples import apportion

    counts = apportion(weights, body)
    exact = draw(st.integers(0, 2)) == 0
    thr = int(Fraction(repr(min_freq)) * n)
    if exact and thr >= 2:
        candidates = [g for g in levels[0] if len(g[1]) >= 2]
        if candidates:
            parent, children = candidates[draw(st.integers(0, len(candidates) - 1))]
            idx = [leaves.index(c) for c in children]
            outside = [i for i in range(n_leaves) if i not in idx]
            if outside:
                dump = max(outside, key=lambda i: counts[i])
                a = draw(st.integers(1, thr - 1))
                freed = sum(counts[i] for i in idx)
                new = [0] * len(idx)
                new[0], new[1] = thr - a, a
                if counts[dump] + freed - thr >= 0:
                    for i, c in zip(idx, new):
                        counts[i] = c
                    counts[dump] += freed - thr
    internal = None
    if n_internal:
        flat = [p for lv in levels for p, _ in lv]
        internal = flat[draw(st.integers(0, len(flat) - 1))]
    malformed = draw(st.sampled_from(["none"] * 9 + ["missing_child", "no_known_child"]))
    return {
        "leaves": leaves,
        "numeric_leaves": numeric,
        "levels": levels,
        "counts": counts,
        "n_missing": n_missing,
        "unknown": [["UNK_a", n_unknown], ["UNK_b", n_unknown2]],
        "internal": [internal, n_internal],
        "min_freq": min_freq,
        "unknown_handling": draw(st.sampled_from(["raise", "drop"])),
        "pre_orders": draw(st.booleans()),
        "with_y": draw(st.booleans()),
        "copy": draw(st.booleans()),
        "key": draw(st.integers(0, 2**20)),
        "malformed": malformed,
    }


def strategy(tier):
    return strategy_case()


def reference_merge(case, n):
    """Independent merge: returns {leader: set(members)} over all known values."""
    thr = Fraction(repr(case["min_freq"]))
    known = list(case["leaves"]) + [p for lv in case["levels"] for p, _ in lv]
    mass = {v: 0 for v in known}
    for leaf, c in zip(case["leaves"], case["counts"]):
        mass[leaf] += c
    if case["internal"][0]:
        mass[case["internal"][0]] += case["internal"][1]
    members = {v: [v] for v in known}
    for level in case["levels"]:
        parent_of = {}
        for parent, children in level:
            for child in children:
                parent_of[child] = parent
            parent_of[parent] = parent
        to_group = [v for v in parent_of if Fraction(mass[v], n) < thr]
        for v in to_group:
            p = parent_of[v]
            if p == v:
                continue
            mass[p] += mass[v]
            mass[v] = 0
            members[p] = members[v] + members[p]
            members[v] = []
    return {v: set(m) for v, m in members.items() if m}, mass


def ancestors(case, value):
    out, cur = [], value
    for level in case["levels"]:
        for parent, children in level:
            if cur in children:
                out.append(parent)
                cur = parent
                break
    return out


def check_case(case) -> Outcome:
    from AutoCarver.discretizers import ChainedDiscretizer, GroupedList

    out = Outcome()
    levels = [{p: list(ch) + [p] for p, ch in lv} for lv in case["levels"]]
    malformed = case["malformed"]
    if malformed == "missing_child" and len(levels) >= 2:
        first = next(iter(levels[1]))
        levels[1][first] = ["GHOST_child"] + levels[1][first]
    elif malformed == "no_known_child" and len(levels) >= 2:
        levels[1]["P_orphan"] = ["P_orphan"]
    else:
        malformed = "none"
    rows = []
    for leaf, c in zip(case["leaves"], case["counts"]):
        value = int(leaf) if case["numeric_leaves"] else leaf
        rows += [value] * c
    rows += [np.nan] * case["n_missing"]
    for name, c in case["unknown"]:
        rows += [name] * c
    if case["internal"][0]:
        rows += [case["internal"][0]] * case["internal"][1]
    n = len(rows)
    random.Random(case["key"]).shuffle(rows)
    X = pd.DataFrame({"f": pd.Series(rows, dtype=object), "other": list(range(n))})
    y = pd.Series([(i * 7 + case["key"]) % 2 for i in range(n)]) if case["with_y"] else None
    kwargs = {}
    if case["pre_orders"]:
        kwargs["values_orders"] = {"f": GroupedList(list(case["leaves"]))}
    made = observe(
        ChainedDiscretizer, qualitative_features=["f"], min_freq=case["min_freq"], chained_orders=[dict(lv) for lv in levels],
        unknown_handling=case["unknown_handling"], copy=case["copy"], **kwargs,
    )
    out.label(f"levels:{len(levels)}", f"handling:{case['unknown_handling']}")
    if malformed != "none":
        out.label(f"malformed:{malformed}")
        out.nontrivial = True
        if made.ok:
            out.violate(f"malformed-hierarchy-accepted:{malformed}", f"hierarchy {levels!r} was accepted")
        elif type(made.exc) is not AssertionError:
            out.violate(f"malformed-hierarchy-wrong-exception:{malformed}:{made.exc_type}", f"raised {made.exc!r}")
        return out
    if not made.ok:
        out.violate(f"constructor-raised:{made.bucket()}", f"valid hierarchy {levels!r} raised {made.exc!r}")
        return out
    disc = made.value
    n_unknown = sum(c for _, c in case["unknown"])
    most_all = max(list(case["counts"]) + [c for _, c in case["unknown"]] + [case["internal"][1]])
    if Fraction(most_all, n) < Fraction(repr(case["min_freq"])):
        # the feature is dropped before anything else is looked at (no value reaches min_freq)
        return discard("no-frequent-value", out.labels)
    fit = observe(disc.fit, X.copy(), y) if y is not None else observe(disc.fit, X.copy())
    if n_unknown and case["unknown_handling"] == "raise":
        out.label("unknown-raise")
        out.nontrivial = True
        if fit.ok:
            out.violate("unknown-values-accepted-with-raise", "unknown values were accepted with unknown_handling='raise'")
        elif type(fit.exc) is not AssertionError:
            out.violate(f"unknown-values-wrong-exception:{fit.exc_type}", f"raised {fit.exc!r}")
        return out
    most = max(list(case["counts"]) + [c for _, c in case["unknown"]] + [case["internal"][1]])
    if not fit.ok:
        if isinstance(fit.exc, AssertionError) and Fraction(most, n) < Fraction(repr(case["min_freq"])):
            return discard("no-frequent-value", out.labels)
        out.violate(f"fit-raised:{fit.exc_type}@{fit.frame}", f"fit raised {fit.exc!r} on a valid hierarchy; counts {dict(zip(case['leaves'], case['counts']))} internal {case['internal']} unknown {case['unknown']}")
        return out
    if "f" not in disc.features:
        if Fraction(most, n) < Fraction(repr(case["min_freq"])):
            return discard("feature-dropped-no-frequent-value", out.labels)
        out.violate("feature-dropped-though-a-value-is-frequent", f"feature dropped; most frequent count {most}/{n}, min_freq {case['min_freq']}")
        return out

    order = disc.values_orders["f"]
    expected, mass = reference_merge(case, n)
    fitted = {}
    for leader in order:
        members = [m for m in order.content.get(leader, []) if isinstance(m, str)]
        fitted[leader] = set(members)
    known = set(case["leaves"]) | {p for lv in case["levels"] for p, _ in lv}
    present = set().union(*fitted.values()) if fitted else set()
    lost = known - present
    if lost:
        out.violate("known-value-lost", f"values {sorted(lost)} are no longer in values_orders: {dict(order.content)!r}")
        return out
    # unknown values / missing values
    nan_group = fitted.get(STR_NAN, set())
    unknown_names = {name for name, c in case["unknown"] if c}
    if unknown_names:
        out.label("unknown-drop")
        if not unknown_names <= nan_group:
            out.violate("unknown-values-not-merged-with-missing", f"unknown {sorted(unknown_names)} vs nan group {sorted(nan_group)}; order {list(order)!r} content {dict(order.content)!r}")
            return out
    fitted_known = {k: v & known for k, v in fitted.items() if (v & known)}
    if {frozenset(v) for v in fitted_known.values()} != {frozenset(v) for v in expected.values()} or any(k not in expected or expected[k] != v for k, v in fitted_known.items()):
        diffs = [(k, sorted(v), sorted(expected.get(k, []))) for k, v in fitted_known.items() if expected.get(k) != v][:3]
        exact = any(Fraction(m, n) == Fraction(repr(case["min_freq"])) for m in mass.values())
        out.violate(
            "fitted-groups-differ-from-reference-merge" + (":group-exactly-at-min_freq" if exact else ""),
            f"(leader, fitted, reference): {diffs}; counts {dict(zip(case['leaves'], case['counts']))} internal {case['internal']} n={n} min_freq={case['min_freq']}",
        )
        return out
    # validity in the statement's own words
    merged_leaf = kept_leaf = False
    for leaf, c in zip(case["leaves"], case["counts"]):
        if c == 0:
            continue
        frequent = Fraction(c, n) >= Fraction(repr(case["min_freq"]))
        leader = next(k for k, v in fitted.items() if leaf in v)
        if frequent and leader != leaf:
            out.violate("frequent-leaf-merged", f"{leaf} ({c}/{n}) is led by {leader}")
        if not frequent and leader == leaf and ancestors(case, leaf):
            out.violate("rare-leaf-not-merged", f"{leaf} ({c}/{n}) stays its own modality")
        if not frequent and leader != leaf and leader not in ancestors(case, leaf):
            out.violate("leaf-merged-outside-its-ancestors", f"{leaf} is led by {leader}, ancestors {ancestors(case, leaf)}")
        merged_leaf |= leader != leaf
        kept_leaf |= leader == leaf
    out.nontrivial = merged_leaf and kept_leaf
    if any(Fraction(m, n) == Fraction(repr(case["min_freq"])) for m in mass.values() if m):
        out.label("group-exactly-at-min_freq")
    if any(len(ancestors(case, leaf)) >= 2 and next(k for k, v in fitted.items() if leaf in v) == ancestors(case, leaf)[1] for leaf in case["leaves"]):
        out.label("two-hop-merge")

    tr = observe(disc.transform, X.copy())
    if not tr.ok:
        out.violate(f"transform-raised:{tr.bucket()}", f"transform(X_train) raised {tr.exc!r}")
        return out
    for v, lab in zip(X["f"].tolist(), tr.value["f"].tolist()):
        if is_missing(v) or v in unknown_names:
            if not is_missing(lab):
                out.violate("missing-or-unknown-not-left-missing", f"value {v!r} -> {lab!r}")
                break
            continue
        key = str(v)
        leader = next(k for k, mem in fitted.items() if key in mem)
        if lab != leader:
            out.violate("transform-output-is-not-the-group-leader", f"value {v!r} -> {lab!r}, leader {leader!r}")
            break
    if not tr.value["other"].equals(X["other"]):
        out.violate("foreign-column-modified", "column 'other' changed")
    return out
