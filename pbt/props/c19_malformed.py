"""C19 — malformed inputs are refused up-front with AssertionError."""
import json

import numpy as np
import pandas as pd
from hypothesis import strategies as st

from core.outcome import Outcome, discard, observe
from gen.objects import CARVERS, PIPELINES, fitted_case, make_object
from gen.samples import build, feature_lists
from oracles.mapping import frames_equal

PID = "C19"
RULE = (
    "A valid generated case (it must fit cleanly first) plus ONE injected malformation at a Hypothesis-chosen "
    "position, for every class owning the corresponding validation: target with a missing value; wrong number of "
    "classes for the carver type (constant / 3-class / {1,2} / string binary; binary or string for continuous; "
    "binary for multiclass; dev classes != train classes); y (or y_dev) permuted, shifted or of a different length "
    "than X (X_dev); X / X_dev not a DataFrame, y not a Series; feature column missing from X or X_dev; feature "
    "declared both quantitative and qualitative/ordinal; a string inside a quantitative column (any row, incl. rows "
    "where other columns are missing); a value absent from an ordinal ranking; unsupported sort_by; ordinal feature "
    "without ranking; second fit (good or bad data) and malformed transform input on a fitted object. Oracle: the "
    "call raises exactly AssertionError; on a fitted object values_orders, the normalised JSON export and "
    "transform(X_train) are identical before and after the rejected call. Non-trivial: the clean case fits and the "
    "malformation applies to the class."
)
BOUNDS = {"rows": "12-400", "features": "1-3"}
ASSUMPTIONS = [
    "ContinuousDiscretizer takes an optional, unused y and does not route through the target validation: target malformations are not asserted against it",
    "single-step discretizers are only given the malformations their own code path validates",
]
BUDGET = {"quick": 900, "thorough": 30000}
DEADLINE_S = {"quick": 220, "thorough": 3300}
CLASSES = CARVERS + PIPELINES + CARVERS + PIPELINES + ("CategoricalDiscretizer", "OrdinalDiscretizer", "StringDiscretizer")

KINDS = [
    "y_nan", "y_classes", "y_index_permuted", "y_index_shifted", "y_length", "ydev_index_permuted", "ydev_length",
    "ydev_classes", "x_not_dataframe", "xdev_not_dataframe", "y_not_series", "x_missing_column", "xdev_missing_column",
    "feature_in_two_lists", "string_in_quantitative", "value_not_in_ranking", "bad_sort_by", "ordinal_without_ranking",
    "refit_good", "refit_bad", "refit_other", "transform_not_dataframe", "transform_missing_column",
]
AFTER = {"refit_good", "refit_bad", "refit_other", "transform_not_dataframe", "transform_missing_column"}


def strategy(tier):
    @st.composite
    def build_case(draw):
        case = draw(fitted_case(CLASSES, dev_modes=("none", "same", "perturbed")))
        # the malformation is drawn among those the class validates (construction, not rejection)
        kinds = [k for k in KINDS if applicable(k, case["config"]["cls"], case, None)]
        case["malform"] = {"kind": draw(st.sampled_from(kinds)), "pos": draw(st.integers(0, 10**6)), "variant": draw(st.integers(0, 5))}
        return case

    return build_case()


def applicable(kind, cls, case, sample):
    quant, cat, ordi, _ = feature_lists(case)
    carver = cls in CARVERS
    has_dev = (sample.X_dev is not None) if sample is not None else bool(case.get("dev_blocks"))
    if kind in ("y_nan", "y_index_permuted", "y_index_shifted", "y_length", "y_not_series"):
        return True
    if kind == "y_classes":
        return carver
    if kind in ("ydev_index_permuted", "ydev_length", "xdev_not_dataframe", "xdev_missing_column"):
        return carver and has_dev
    if kind == "ydev_classes":
        return cls == "MulticlassCarver" and has_dev
    if kind in ("x_not_dataframe", "x_missing_column"):
        return True
    if kind == "feature_in_two_lists":
        return carver
    if kind == "string_in_quantitative":
        return bool(quant) and cls in CARVERS + ("Discretizer", "QuantitativeDiscretizer")
    if kind == "value_not_in_ranking":
        return bool(ordi) and cls in CARVERS + ("Discretizer", "QualitativeDiscretizer")
    if kind == "bad_sort_by":
        return carver
    if kind == "ordinal_without_ranking":
        return bool(ordi) and cls in CARVERS + ("Discretizer", "QualitativeDiscretizer", "OrdinalDiscretizer")
    if kind in AFTER:
        return True
    return False


def call_fit(obj, cls, X, y, X_dev=None, y_dev=None, has_dev=False):
    if cls in CARVERS and has_dev:
        return observe(obj.fit, X, y, X_dev=X_dev, y_dev=y_dev)
    return observe(obj.fit, X, y)


def state(obj, X):
    dumped = observe(lambda: json.loads(json.dumps(obj.to_json(), default=str)))
    doc = dumped.value if dumped.ok else {"error": repr(dumped.exc)}
    if isinstance(doc, dict):
        doc = dict(doc)
        doc["features"] = sorted(doc.get("features", []))
    orders = {f: (list(map(repr, o)), {repr(k): list(map(repr, v)) for k, v in o.content.items()}) for f, o in obj.values_orders.items()}
    tr = observe(obj.transform, X.copy())
    return doc, orders, tr


def check_case(case) -> Outcome:
    out = Outcome()
    cfg = case["config"]
    cls = cfg["cls"]
    mal = case["malform"]
    kind, pos, variant = mal["kind"], mal["pos"], mal["variant"]
    out.label(f"cls:{cls}", f"kind:{kind}")
    sample = build(case)
    has_dev = sample.X_dev is not None and cls in CARVERS
    if not applicable(kind, cls, case, sample):
        return discard("malformation-not-applicable-to-class", out.labels)

    # the clean case must fit: the injected malformation is then the only defect
    clean = make_object(case)
    rc = call_fit(clean, cls, sample.X.copy(), sample.y.copy(), sample.X_dev.copy() if has_dev else None, sample.y_dev.copy() if has_dev else None, has_dev)
    if not rc.ok:
        return discard(f"clean-case-does-not-fit:{rc.exc_type}", out.labels)
    out.nontrivial = True
    quant, cat, ordi, rankings = feature_lists(case)
    X, y = sample.X.copy(), sample.y.copy()
    Xd = sample.X_dev.copy() if has_dev else None
    yd = sample.y_dev.copy() if has_dev else None
    n = len(X)
    i = pos % n

    def expect_assertion(res, what):
        if res.ok:
            out.violate(f"malformed-input-accepted:{kind}", f"{cls}: {what} was accepted")
        elif type(res.exc) is not AssertionError:
            out.violate(f"malformed-input-wrong-exception:{kind}:{res.exc_type}", f"{cls}: {what} raised {res.exc!r} (frame {res.frame})")

    if kind in AFTER:
        obj = clean
        before = state(obj, sample.X)
        if kind == "refit_good":
            res = call_fit(obj, cls, X, y, Xd, yd, has_dev)
            what = "second fit (valid data)"
        elif kind == "refit_other":
            # a second fit on a *different* valid sample: every other row, with a missing value planted in one
            # feature column and one qualitative cell replaced by the value of another row
            X2, y2 = X.iloc[::2].copy(), y.iloc[::2].copy()
            cols = list(sample.X.columns)
            col = cols[pos % len(cols)]
            if len(X2) > 2:
                X2[col] = X2[col].astype(object) if sample.specs[col]["kind"] in ("ordinal", "categorical") else X2[col].astype(float)
                X2.iloc[variant % len(X2), X2.columns.get_loc(col)] = np.nan
            res = call_fit(obj, cls, X2, y2, Xd, yd, has_dev)
            what = "second fit (another valid sample)"
        elif kind == "refit_bad":
            yb = y.astype(object).copy()
            yb.iloc[i] = np.nan
            res = call_fit(obj, cls, X, yb, Xd, yd, has_dev)
            what = "second fit (y with a missing value)"
        elif kind == "transform_not_dataframe":
            res = observe(obj.transform, X.values if variant % 2 else X.to_dict("list"))
            what = "transform of a non-DataFrame"
        else:
            from oracles.views import raw_feature

            feats = sorted({raw_feature(case, f)[0] for f in obj.features} - {None})
            if not feats:
                return discard("no-feature-kept", out.labels)
            res = observe(obj.transform, X.drop(columns=[feats[pos % len(feats)]]))
            what = "transform without a fitted column"
        expect_assertion(res, what)
        after = state(obj, sample.X)
        if before[1] != after[1]:
            out.violate(f"rejected-call-changed-values_orders:{kind}", f"{cls}: values_orders differ after {what}")
        elif before[0] != after[0]:
            keys = sorted(k for k in set(before[0]) | set(after[0]) if before[0].get(k) != after[0].get(k)) if isinstance(before[0], dict) and isinstance(after[0], dict) else ["?"]
            out.violate(f"rejected-call-changed-json-export:{kind}:{'+'.join(keys)}", f"{cls}: to_json() differs after {what} (keys {keys})")
        if before[2].ok != after[2].ok or (before[2].ok and frames_equal(before[2].value, after[2].value)):
            out.violate(f"rejected-call-changed-transform:{kind}", f"{cls}: transform(X_train) differs after {what}")
        return out

    # ---- malformations of the first fit
    override = {}
    what = kind
    if kind == "y_nan":
        y = y.astype(object) if y.dtype == object else y.astype(float) if cls != "MulticlassCarver" else y.astype(object)
        y.iloc[i] = np.nan
    elif kind == "y_classes":
        if cls == "BinaryCarver":
            alt = [
                pd.Series(0, index=y.index),
                pd.Series([0, 1, 2] * (n // 3 + 1), index=None)[:n].set_axis(y.index),
                y + 1,
                y.map({0: "a", 1: "b"}),
                pd.Series(1, index=y.index),
                y * 2,
            ]
            y = alt[variant % len(alt)]
        elif cls == "ContinuousCarver":
            alt = [pd.Series((np.arange(n) % 2), index=y.index), y.astype(str), pd.Series(0.5, index=y.index)]
            y = alt[variant % len(alt)]
        else:
            alt = [pd.Series((np.arange(n) % 2), index=y.index), pd.Series("a", index=y.index, dtype=object)]
            y = alt[variant % len(alt)]
    elif kind == "y_index_permuted":
        if n < 2:
            return discard("too-small", out.labels)
        idx = list(y.index)
        j = (i + 1 + variant) % n
        if j == i:
            j = (i + 1) % n
        idx[i], idx[j] = idx[j], idx[i]
        y = pd.Series(y.values, index=idx)
    elif kind == "y_index_shifted":
        y = pd.Series(y.values, index=[f"s{k}" for k in range(n)] if variant % 2 else [10**7 + k for k in range(n)])
    elif kind == "y_length":
        y = y.iloc[:-1] if variant % 2 else pd.concat([y, y.iloc[:1]])
    elif kind == "ydev_index_permuted":
        m = len(yd)
        idx = list(yd.index)
        a, b = pos % m, (pos + 1) % m
        if a == b:
            return discard("too-small", out.labels)
        idx[a], idx[b] = idx[b], idx[a]
        yd = pd.Series(yd.values, index=idx)
    elif kind == "ydev_length":
        yd = yd.iloc[:-1] if variant % 2 else pd.concat([yd, yd.iloc[:1]])
    elif kind == "ydev_classes":
        levels = case["target"]["levels"]
        yd = yd.copy()
        if variant % 2:
            yd.iloc[pos % len(yd)] = "never_seen_class" if isinstance(levels[0], str) else 987
            yd = yd.astype(object) if isinstance(levels[0], str) else yd
        else:
            drop = levels[pos % len(levels)]
            keep = levels[(pos + 1) % len(levels)]
            yd = yd.where(yd != drop, keep)
    elif kind == "x_not_dataframe":
        # (None is not used: the package treats X=None as "not provided", e.g. for X_dev and load_discretizer)
        X = [X.values, X.to_dict("list"), X.values.tolist()][variant % 3]
    elif kind == "xdev_not_dataframe":
        Xd = Xd.values if variant % 2 else Xd.to_dict("list")
    elif kind == "y_not_series":
        y = [y.tolist(), y.values, y.to_frame()][variant % 3]
    elif kind == "x_missing_column":
        cols = quant + cat + ordi
        X = X.drop(columns=[cols[pos % len(cols)]])
    elif kind == "xdev_missing_column":
        cols = quant + cat + ordi
        Xd = Xd.drop(columns=[cols[pos % len(cols)]])
    elif kind == "feature_in_two_lists":
        override["dup"] = True
    elif kind == "string_in_quantitative":
        col = quant[(pos + variant // 2) % len(quant)]  # the variants of one position cover several columns
        X[col] = X[col].astype(object)
        rows = list(range(n))
        if variant % 2 and len(quant) > 1:
            other = [c for c in quant if c != col]
            nan_rows = [r for r in rows if any(pd.isna(sample.X[o].iloc[r]) for o in other)]
            rows = nan_rows or rows
        X.iloc[rows[pos % len(rows)], X.columns.get_loc(col)] = "oops"
    elif kind == "value_not_in_ranking":
        col = ordi[pos % len(ordi)]
        X.iloc[i, X.columns.get_loc(col)] = "NOT_IN_RANKING"
        # a feature without any value reaching min_freq is dropped before its values are looked at: the
        # foreign value is then never used, accepting it is not a violation
        if X[col].value_counts(normalize=True, dropna=False).drop(np.nan, errors="ignore").max() < cfg["min_freq"]:
            return discard("ordinal-feature-dropped-for-low-frequency", out.labels)
    elif kind == "bad_sort_by":
        override["sort_by"] = ["foo", "kruskal", "chi2"][variant % 3] if cls != "ContinuousCarver" else ["cramerv", "tschuprowt"][variant % 2]
    elif kind == "ordinal_without_ranking":
        override["drop_ranking"] = ordi[pos % len(ordi)]

    def construct():
        from AutoCarver.discretizers import GroupedList

        if not override:
            return make_object(case)
        if "sort_by" in override:
            if cls == "ContinuousCarver":
                from AutoCarver import ContinuousCarver

                return ContinuousCarver(min_freq=cfg["min_freq"], quantitative_features=quant, qualitative_features=cat, ordinal_features=ordi,
                                        values_orders={f: GroupedList(list(r)) for f, r in rankings.items()}, sort_by=override["sort_by"])
            return make_object(case, sort_by=override["sort_by"])
        orders = {f: GroupedList(list(r)) for f, r in rankings.items() if f != override.get("drop_ranking")}
        q, c, o = list(quant), list(cat), list(ordi)
        if override.get("dup"):
            allf = q + c + o
            f = allf[pos % len(allf)]
            if f in q:
                (c if variant % 2 or not o else o).append(f) if True else None
            else:
                q.append(f)
        from gen.objects import _classes

        klass = _classes()[cls]
        if cls in CARVERS:
            kwargs = dict(min_freq=cfg["min_freq"], quantitative_features=q, qualitative_features=c, ordinal_features=o, values_orders=orders,
                          max_n_mod=cfg["max_n_mod"], min_freq_mod=cfg["min_freq_mod"], output_dtype=cfg["output_dtype"], dropna=cfg["dropna"], copy=cfg["copy"])
            if cls != "ContinuousCarver":
                kwargs["sort_by"] = cfg["sort_by"]
            return klass(**kwargs)
        if cls == "Discretizer":
            return klass(quantitative_features=q, qualitative_features=c, min_freq=cfg["min_freq"], ordinal_features=o, values_orders=orders)
        if cls == "QualitativeDiscretizer":
            return klass(qualitative_features=c, min_freq=cfg["min_freq"], ordinal_features=o, values_orders=orders)
        if cls == "OrdinalDiscretizer":
            return klass(ordinal_features=o, min_freq=cfg["min_freq"], values_orders=orders)
        return make_object(case)

    made = observe(construct)
    if not made.ok:
        if kind in ("feature_in_two_lists", "bad_sort_by", "ordinal_without_ranking"):
            if type(made.exc) is not AssertionError:
                out.violate(f"malformed-input-wrong-exception:{kind}:{made.exc_type}", f"{cls}: constructor raised {made.exc!r}")
            else:
                out.label("refused-by-constructor")
            return out
        out.violate(f"constructor-raised:{made.bucket()}", f"{cls}: constructor raised {made.exc!r}")
        return out
    res = call_fit(made.value, cls, X, y, Xd, yd, has_dev)
    expect_assertion(res, f"fit with malformation {kind} (variant {variant})")
    return out


# ----------------------------------------------------------------------------- exhaustive matrix
def _fixed_case(cls):
    """A small valid sample with 2 quantitative (one with missing values), 1 categorical and 1 ordinal
    feature and an identical dev sample; target matching the class."""
    from gen.objects import KINDS as CLASS_KINDS, target_kinds_for

    tkind = target_kinds_for(cls)[0]
    if tkind == "binary":
        target = {"kind": "binary", "levels": [0, 1], "blocks": [30, 30]}
    elif tkind == "continuous":
        target = {"kind": "continuous", "levels": [0, 1, 2, 3], "blocks": [15, 15, 15, 15]}
    else:
        target = {"kind": "multiclass", "levels": [0, 1, 2], "blocks": [20, 20, 20]}
    nl = len(target["blocks"])
    b = target["blocks"][0]

    def table(rows):
        return [list(r) for r in (rows * nl)[:nl]]

    def skew(base, nmod):
        out = []
        for lv in range(nl):
            row = list(base)
            row[lv % nmod], row[(lv + 1) % nmod] = row[(lv + 1) % nmod] + 2, max(0, row[lv % nmod] - 2)
            row[-1] = base[-1]
            diff = b - sum(row)
            row[0] += diff
            out.append(row)
        return out

    feats = []
    allowed = CLASS_KINDS[cls]
    if "continuous" in allowed or "discrete" in allowed:
        n0 = b // 5
        feats.append({"name": "q0", "kind": "discrete", "pool": "small_int", "values": [1, 2, 3, 4, 5], "train": skew([n0] * 5 + [0], 5), "dev": None})
        n1 = (b - 4) // 4
        feats.append({"name": "q1", "kind": "discrete", "pool": "small_int", "values": [10, 20, 30, 40], "train": skew([n1] * 4 + [4], 4), "dev": None})
    if "categorical" in allowed:
        n2 = b // 3
        feats.append({"name": "c2", "kind": "categorical", "flavour": "str", "values": ["A", "B", "c"], "train": skew([n2] * 3 + [0], 3), "dev": None})
    if "ordinal" in allowed:
        n3 = b // 3
        feats.append({"name": "o3", "kind": "ordinal", "values": ["low", "mid", "high"], "ranking": ["low", "mid", "high"], "train": skew([n3] * 3 + [0], 3), "dev": None})
    for f in feats:
        for row in f["train"]:
            assert sum(row) == b and min(row) >= 0, (f["name"], row)
        f["dev"] = [list(r) for r in f["train"]]
    cfg = {"cls": cls, "min_freq": 0.1, "copy": True, "n_jobs": 1}
    if cls in CARVERS:
        cfg.update({"min_freq_mod": None, "max_n_mod": 4, "dropna": True, "output_dtype": "float", "sort_by": "kruskal" if cls == "ContinuousCarver" else "cramerv"})
    return {"target": target, "dev_blocks": list(target["blocks"]) if cls in CARVERS else None, "features": feats, "key": 5, "index": "offset", "config": cfg}


def _matrix_for_class(args):
    cls, positions = args
    from core.findings import Findings
    from core.outcome import case_hash
    from gen.samples import build as build_sample

    findings = Findings()
    evaluations, nontrivial, violations, known, classes = 0, set(), [], {}, {}
    base = _fixed_case(cls)
    if cls not in CARVERS:
        for f in base["features"]:
            f["dev"] = None
    sample = build_sample(base)
    for kind in KINDS:
        if not applicable(kind, cls, base, sample):
            continue
        for variant in range(6):
            for pos in positions:
                case = dict(base, malform={"kind": kind, "pos": pos, "variant": variant})
                outcome = check_case(case)
                evaluations += 1
                classes[f"matrix:{kind}"] = classes.get(f"matrix:{kind}", 0) + 1
                if outcome.status == "discard":
                    classes[f"matrix-discard:{outcome.signature}"] = classes.get(f"matrix-discard:{outcome.signature}", 0) + 1
                    continue
                if outcome.nontrivial:
                    nontrivial.add(case_hash(case))
                for sig, msg in outcome.all_violations():
                    if findings.match_open(PID, sig):
                        known[sig] = known.get(sig, 0) + 1
                    elif not any(v[0] == sig for v in violations):
                        violations.append((sig, f"[matrix {cls}] {msg}", case))
    return evaluations, nontrivial, violations, known, classes


def extra_run(tier, seed_value, findings):
    """Every malformation kind x variant 0..5 x positions for every class on a fixed valid sample."""
    import multiprocessing

    positions = (23,) if tier == "quick" else (0, 7, 23, 41)
    jobs = [(cls, positions) for cls in sorted(set(CLASSES))]
    with multiprocessing.get_context("fork").Pool(len(jobs)) as pool:
        results = pool.map(_matrix_for_class, jobs)
    evaluations, nontrivial, violations, known, classes = 0, set(), [], {}, {}
    for ev, nt, vio, kn, cl in results:
        evaluations += ev
        nontrivial |= nt
        for v in vio:
            if not any(w[0] == v[0] for w in violations):
                violations.append(v)
        for k, c in kn.items():
            known[k] = known.get(k, 0) + c
        for k, c in cl.items():
            classes[k] = classes.get(k, 0) + c
    return {"evaluations": evaluations, "nontrivial": nontrivial, "violations": violations, "known_hits": known, "classes": classes,
            "coverage": {"matrix_cells": evaluations, "matrix_note": "malformation kind x variant x position x class on a fixed valid sample, enumerated completely"}}
