#!/venv/bin/python
"""Entry point of the property checks.

    run.py Cxx --tier quick|thorough [--shards N] [--examples N]
    run.py --replay <file>

exit 0: property held on everything explored; 1: violation (a VIOLATION line is printed);
2: harness error (never a verdict about the property).
"""
import argparse
import os
import sys

HERE = os.path.dirname(os.path.abspath(__file__))


def main() -> int:
    # the hash seed must be fixed before the interpreter starts
    if os.environ.get("PYTHONHASHSEED") != "0" and not os.environ.get("VERIF_KEEP_HASHSEED"):
        env = dict(os.environ, PYTHONHASHSEED="0")
        os.execve(sys.executable, [sys.executable] + sys.argv, env)

    sys.path.insert(0, HERE)
    parser = argparse.ArgumentParser()
    parser.add_argument("property", nargs="?")
    parser.add_argument("--tier", default=os.environ.get("VERIF_TIER", "quick"), choices=["quick", "thorough"])
    parser.add_argument("--replay")
    parser.add_argument("--shards", type=int)
    parser.add_argument("--examples", type=int)
    args = parser.parse_args()

    from core.bootstrap import HarnessError

    try:
        from core import runner

        if args.replay:
            return runner.run_replay(args.replay)
        if not args.property:
            parser.error("property id required")
        seed = int(os.environ.get("VERIF_SEED", "1") or 1)
        return runner.run_property(args.property, args.tier, seed, args.shards, args.examples)
    except HarnessError as exc:
        sys.stderr.write(f"HARNESS ERROR: {exc}\n")
        return 2
    except Exception:  # noqa: BLE001
        import traceback

        sys.stderr.write("HARNESS ERROR\n" + traceback.format_exc())
        return 2


if __name__ == "__main__":
    sys.exit(main())
