#!/venv/bin/python
"""MANIFEST.setup_cmd: offline setup. Makes sure hypothesis is importable (installing it from the
local wheelhouse into /verif/.deps when it is not) and that AutoCarver imports from the repository."""
import os
import sys

sys.path.insert(0, os.path.dirname(os.path.abspath(__file__)))
from core.bootstrap import bootstrap  # noqa: E402

bootstrap()
import AutoCarver  # noqa: E402
import hypothesis  # noqa: E402

print("setup ok: hypothesis", hypothesis.__version__, "AutoCarver from", os.path.dirname(AutoCarver.__file__))
