#!/venv/bin/python
"""Writes /verif/MANIFEST.json from the table below and validates it against the schema."""
import json
import os
import sys

ROOT = os.path.dirname(os.path.dirname(os.path.abspath(__file__)))
PY = "/venv/bin/python"

# property -> (technique, level text, level note, design ref)
CHECKS = {
    "C13": (
        "model-based PBT: Hypothesis-generated GroupedList operation sequences stepped in lock-step with a "
        "reference model + bounded exhaustive enumeration of all operation sequences on a 5-value universe; thorough tier "
        "adds coverage-guided fuzzing (atheris/libFuzzer) of byte-decoded operation sequences against the same oracle",
        "Random search over operation histories (<=25 ops, 12-value universe incl. falsy leaders) against a "
        "40-line reference model with structural invariants after every step, plus an exhaustive sweep of "
        "every valid operation from every state reachable within depth 4 (quick) / 5 (thorough) on a small "
        "universe. Exploration, not proof: bounded depth and universe.",
        "Trusted: CPython, Hypothesis, the reference model (pbt/oracles/grouped_list_model.py). Validity of "
        "operations is taken from the docstrings and from the package's own call sites.",
        "DESIGN.md §4 C13",
    ),
    "C09": (
        "PBT with exact-count postconditions: generated samples, bucket counts recomputed from values_orders with "
        "the reference mapping and compared with min_freq thresholds; boundary claims of ContinuousDiscretizer",
        "Generated samples (continuous/discrete/spiked/tied, ordinal rankings with unobserved levels, categorical "
        "incl. numeric-valued and empty-string categories) x 6 discretizer classes x 10 min_freq values; "
        "postconditions checked with exact integer counts. Exploration over bounded sizes.",
        "Trusted: reference mapping, integer counting. One open known finding (D9, rounding gap of "
        "q=round(1/min_freq)) is listed in known_findings.json and reported as KNOWN-FINDING.",
        "DESIGN.md §4 C09",
    ),
    "C03": (
        "PBT: structural contiguity read from values_orders (exact Fraction target rates for categorical order) + "
        "metamorphic probing of transform on boundaries, neighbouring floats, midpoints and extremes",
        "Generated samples x Discretizer family and the three carvers; contiguity of every fitted group in the "
        "feature's natural order and monotone right-closed step behaviour of transform over probe points far "
        "outside the training range. Exploration over bounded sizes.",
        "Trusted: reference mapping, numpy.nextafter, an independently fitted Discretizer to name the carver's base "
        "modalities of categorical features.",
        "DESIGN.md §4 C03",
    ),
    "C08": (
        "PBT/fuzzing with hostile generators and exception bucketing: degenerate-shape samples through every class, "
        "post-fit coherence invariants and structural partition checks",
        "Hostile but well-formed samples (constant, all-missing, ids, equally rare discrete values, one-class "
        "features, spikes, 2-12 rows) x 10 classes x parameters; any non-AssertionError from fit/transform is a "
        "violation bucketed by (type, innermost package frame), so several root causes are enumerated per campaign; "
        "after success the per-feature attributes, summary, history and values_orders partitions are checked. "
        "Exploration over bounded sizes.",
        "Trusted: reference mapping; the weak reading of 'history refers to kept features' (a dropped feature's "
        "history must end with removed=True) is deliberate, see DESIGN.md.",
        "DESIGN.md §4 C08",
    ),
    "C01": (
        "PBT with a brute-force reference: per-instance exhaustive re-enumeration of all consecutive groupings "
        "(own chi2/Yates, V, T, Kruskal-Wallis code, exact three-valued viability) compared with the fitted grouping",
        "Generated tie-prone samples x Binary/ContinuousCarver x all parameters, with and without dev; the optimum "
        "over every viable grouping (and every missing-value placement) is recomputed independently for each case "
        "and the carver's result (recovered through transform) must be an admissible optimum, or its drop must be "
        "justified by a search with no surely-viable candidate. Exhaustive per instance, random over instances.",
        "Trusted: an identically configured Discretizer for the base modalities (C03/C04/C09 decide it), own "
        "measure code (checked against scipy on the unchanged tree by agreement with the carver), Fraction arithmetic.",
        "DESIGN.md §4 C01",
    ),
    "C05": (
        "PBT with a both-directions oracle: new frames built from value selectors resolved against the fitted "
        "state; cause <=> AssertionError naming the feature, otherwise every label equals the reference group's label",
        "Fitted objects of every class and 3-5 new frames each (boundaries +-1ulp, +-1e308, denormals, unseen "
        "categories shared across columns, missing values where none were seen, empty/1-row frames, extra and "
        "permuted columns). Exploration over bounded sizes.",
        "Trusted: reference mapping; fit itself is not judged here.",
        "DESIGN.md §4 C05",
    ),
    "C02": (
        "PBT with direct postconditions on public outputs: label counts/frequencies (exact Fractions), missing-value "
        "handling and train/dev rank agreement of transform(X_train) / transform(X_dev)",
        "Generated samples x Binary/Continuous/MulticlassCarver x all parameters with identical, perturbed and "
        "independent dev samples; no model, only what a user can observe. Exploration over bounded sizes.",
        "Trusted: integer counting and Fraction arithmetic. Exact ties of mean target are not judged for rank agreement.",
        "DESIGN.md §4 C02",
    ),
    "C06": (
        "round-trip + differential PBT: json.dumps/loads/load_* of fitted objects, original vs rebuilt object on "
        "training, float64-upcast and boundary-probe frames; re-serialisation compared after normalisation; thorough tier "
        "adds coverage-guided fuzzing (atheris) of the values_orders (de)serialisation core with a round-trip oracle",
        "Every class over int64/float64/float32/huge/tiny/non-representable values and numeric categories; the "
        "rebuilt object must behave identically (transform outputs or exception type, summary) and re-serialise to "
        "the same JSON. Exploration over bounded sizes.",
        "Trusted: python's json module, NaN-aware frame comparison.",
        "DESIGN.md §4 C06",
    ),
    "C07": (
        "history-based PBT (operation sequences as data) with metamorphic row-purity relations and deep input "
        "snapshots; differential fit_transform vs fit+transform",
        "One fitted object and 1-12 interleaved transform calls over training / subset / permuted / re-indexed / "
        "dev / cross-contaminated frames; invariants after every call (same result, unchanged state, index and "
        "columns kept, foreign columns untouched, inputs unchanged with copy=True). Exploration.",
        "Trusted: snapshot/compare helpers. No side-effect claim for copy=False.",
        "DESIGN.md §4 C07",
    ),
    "C12": (
        "differential PBT: MulticlassCarver vs independently constructed one-vs-rest BinaryCarvers, column by column",
        "Generated 3-5 class samples (int/str/oddly ordered labels), optional dev, every BinaryCarver parameter; "
        "for every class and feature the f_c column must exist iff the reference BinaryCarver keeps f and equal its "
        "output; raw columns unchanged, no other columns; metamorphic: transforming the output again, or a frame with "
        "stale class columns, gives the same class columns. Exploration over bounded sizes.",
        "Trusted: BinaryCarver itself (decided by C01-C04); this check decides the composition only.",
        "DESIGN.md §4 C12",
    ),
    "C16": (
        "PBT with independent recomputation: summary() cross-checked against transform on one-row probe frames and "
        "values_orders; history() re-derived with the C01 brute-force reference (measures, completeness, viable flag)",
        "Fitted carvers and Discretizer-family objects; summary rows vs known values / transform labels / missing-value "
        "placement; for Binary/ContinuousCarver every stage-1 grouping must appear exactly once in history with the "
        "recomputed measure and the last viable record must be the fitted grouping; half of the objects are then "
        "edited by hand (update_discretizer) and summary() is judged again, incl. the order of the written intervals "
        "against the labels of increasing probes. Exploration.",
        "Trusted: C01's reference measures; base modalities from an identically configured Discretizer. The own row of "
        "un-merged missing values (dropna=False) is not judged.",
        "DESIGN.md §4 C16",
    ),
    "C19": (
        "fault-injection PBT: one malformation injected at a generated position into an otherwise valid (verified to "
        "fit) case, per class; exact exception type; state snapshots around rejected calls on fitted objects",
        "22 malformation kinds x the classes owning the validation x generated samples/positions/variants; the call "
        "must raise exactly AssertionError, and on an already fitted object values_orders, the normalised JSON and "
        "transform(X_train) must be unchanged. Exploration.",
        "Trusted: the clean case is fitted first so the injected malformation is the only defect of the input.",
        "DESIGN.md §4 C19",
    ),
    "C17": (
        "history-based PBT with a reference model of the row partition: edit sequences (as data) resolved against the "
        "current state; after every edit C04's mapping oracle, C16's summary oracle and a JSON round trip",
        "Fitted Binary/ContinuousCarvers and 1-8 valid edits (adjacent groups both directions, any categorical groups, "
        "missing values into a leader for features with and without NaN at fit, replace by fresh name or member) plus "
        "invalid edits that must be refused cleanly. Exploration over bounded histories.",
        "Trusted: reference mapping; MulticlassCarver is excluded (its per-class features share one raw column, so a "
        "value introduced for one of them is unknown to its siblings and transform legitimately rejects it).",
        "DESIGN.md §4 C17",
    ),
    "C18": (
        "model-based PBT: generated hierarchies/samples, fitted content compared with an independent dictionary-based "
        "merge using exact counts; validity predicates in the statement's words; malformed hierarchies must be refused",
        "Forests of 2-3 levels, uneven fan-out, unobserved members, internal names in the data, unknown and missing "
        "values, numeric leaves, groups placed exactly at min_freq*n; reference merge vs fitted values_orders and "
        "transform output. Exploration over bounded sizes.",
        "Trusted: the 25-line reference merge (pbt/props/c18_chained.py:reference_merge), Fraction arithmetic.",
        "DESIGN.md §4 C18",
    ),
    "C11": (
        "metamorphic PBT: paired fits on a base sample and on exact re-encodings of it (row permutation, index "
        "relabelling, exact affine maps, order-preserving category renamings), outputs compared as row partitions",
        "Generated tie-rich samples with exactly representable values; 1-3 re-encodings per case (2-4 fits); the set "
        "of kept features and the partition of identity-tracked rows (train and dev) must be identical. Exploration.",
        "Trusted: Fraction check that every affine image is exact; first-occurrence factorisation for partitions.",
        "DESIGN.md §4 C11",
    ),
    "C10": (
        "differential PBT across variants executed in worker processes with different PYTHONHASHSEED values; "
        "harness-owned Pool shim for schedules (pickled copies, generated execution/completion orders) + sampled real pools",
        "For every generated frame 8-10 fits: reference, every hash seed, single-feature and subset fits, permuted "
        "feature lists and columns, n_jobs 2/3 via the shim and via the real multiprocessing.Pool; per feature all "
        "must agree on kept/dropped, values_orders and transform output. Exploration; schedules of the real pool are "
        "only sampled (a stuck pool request times out as inconclusive).",
        "Trusted: the shim's pickling isolation; JSON canonicalisation of results. Hash seeds sampled (3 quick / 5 thorough).",
        "DESIGN.md §4 C10",
    ),
    "C14": (
        "PBT with independent recomputation + validity predicate: measures (own chi2/Yates -> V,T; scipy kruskal; "
        "ANOVA eta; 1-r) and pairwise associations recomputed, then every returned / omitted feature must be justified",
        "Cluster frames (copies, negations, noisy mixtures, bins, merged bins, constants, feature-specific NaN masks) x "
        "Classification/RegressionSelector x measures x filters x n_best x thresh_corr; several outputs are legal under "
        "ties, so a predicate is checked rather than one expected list. Exploration. One open known finding "
        "(RegressionSelector, qualitative features with missing values) is reported as KNOWN-FINDING.",
        "Trusted: scipy.stats.kruskal/spearmanr and numpy.corrcoef as reference primitives, own chi2. colsample=1, one "
        "user measure per type.",
        "DESIGN.md §4 C14",
    ),
    "C15": (
        "metamorphic PBT: paired select() calls on a frame and on re-encodings of it (negation, power-of-two scaling, "
        "category renaming, row / column permutation) + planted copies / monotone images of the target",
        "Same frames as C14; the returned list must be identical on both encodings unless independently recomputed "
        "measures tie; planted features must be returned. Exploration. Three open known findings (RegressionSelector "
        "default distance_measure) are reported as KNOWN-FINDING.",
        "Trusted: C14's reference measures for tie detection.",
        "DESIGN.md §4 C15",
    ),
    "C04": (
        "PBT with a reference oracle: table-first generated samples, transform(X_train) compared with the "
        "mapping recomputed from values_orders (list+content) only; metamorphic string-form probe",
        "Generated samples x all discretizer/carver classes x output_dtype x dropna x JSON-rebuilt objects x "
        "hand-edited objects (update_discretizer, a third of the cases); "
        "every training row's label is checked against an independently computed group (function of the "
        "group, injective, rank for float, leader for str, missing per dropna). Exploration over bounded "
        "sample sizes (<=400 rows).",
        "Trusted: pandas/numpy primitives used to build the frames, the reference mapping "
        "(pbt/oracles/mapping.py). Fit failures are judged by C08/C19, not here.",
        "DESIGN.md §4 C04",
    ),
}

PENDING_REASON = "check not built yet in this round (planned, see DESIGN.md §4); not claimed until it runs"


def main() -> int:
    props = [json.loads(line) for line in open(os.path.join(ROOT, "properties.jsonl"), encoding="utf-8")]
    ids = [p["id"] for p in props]
    checks = []
    for pid in ids:
        if pid not in CHECKS:
            continue
        technique, text, note, ref = CHECKS[pid]
        checks.append(
            {
                "property_id": pid,
                "quick_cmd": f"{PY} pbt/run.py {pid} --tier quick",
                "thorough_cmd": f"{PY} pbt/run.py {pid} --tier thorough",
                "evidence_file": f"evidence/{pid}.json",
                "replay_cmd_template": f"{PY} pbt/run.py --replay {{path}}",
                "engine": "hypothesis-sharded-runner",
                "level_claimed": {"category": "exploration", "text": text, "design_ref": ref},
                "level_note": note,
                "technique": technique,
            }
        )
    manifest = {
        "version": 1,
        "setup_cmd": f"{PY} pbt/setup_check.py",
        "hooks": {
            "guard": "AUTOCARVER_VERIF",
            "enable": "no source hooks are needed: every property is observed through the public API; the guard "
            "name is reserved and unused (C10 rebinds the module-level Pool from the harness at run time)",
            "baseline_off_cmd": "cd /repo && /venv/bin/python -m pytest -ra -q -p no:cacheprovider --timeout=900 "
            "--continue-on-collection-errors",
            "source_commits": [],
            "add_only": True,
        },
        "engines": [
            {
                "name": "hypothesis-sharded-runner",
                "path": "pbt/run.py",
                "serves_properties": [c["property_id"] for c in checks],
                "kind_free_text": "Hypothesis 6.168 property-based testing, 16 seeded shards, JSON cases, corpus replay, "
                "known-findings matcher; bounded exhaustive enumeration where the domain is finite (C13)",
            },
            {
                "name": "atheris-fuzz-targets",
                "path": "pbt/fuzz/fuzz_targets.py",
                "serves_properties": ["C13", "C06"],
                "kind_free_text": "atheris 3.1 / libFuzzer coverage-guided fuzzing, bytes decoded into structured cases by "
                "FuzzedDataProvider, semantic oracle inside the target; run by the thorough tier of C13 and C06 "
                "(pbt/fuzz/driver.py, 4 jobs, installed offline into /verif/.deps on first use)",
            },
        ],
        "checks": checks,
        "notes": "All checks: exit 0 = held on everything explored, 1 = VIOLATION line(s) with replay file, 2 = harness "
        "error. VERIF_SEED and VERIF_TIER are honoured; PYTHONHASHSEED is pinned to 0 by the runner. fix: commits in "
        "/repo are listed in known_findings.json (status fixed).",
        "not_applicable": [{"property_id": pid, "reason": PENDING_REASON} for pid in ids if pid not in CHECKS],
    }
    path = os.path.join(ROOT, "MANIFEST.json")
    with open(path, "w", encoding="utf-8") as fh:
        json.dump(manifest, fh, indent=1)
        fh.write("\n")
    try:
        import jsonschema

        schema = json.load(open("/root/.vp/MANIFEST.schema.json", encoding="utf-8"))
        jsonschema.validate(manifest, schema)
        print("MANIFEST.json valid;", len(checks), "checks,", len(manifest["not_applicable"]), "not claimed")
    except ImportError:
        print("MANIFEST.json written (jsonschema not importable here, not validated)")
    return 0


if __name__ == "__main__":
    sys.exit(main())
