import json, sys
pid = sys.argv[1]
wt = sys.argv[2] if len(sys.argv) > 2 else f"/tmp/wt_{pid}"
tmpl = open('/verif/tools/agent_prompt.txt').read()
for line in open('/verif/properties.jsonl'):
    p = json.loads(line)
    if p['id'] == pid:
        out = (tmpl.replace('__WT__', wt).replace('__PID__', pid).replace('__TITLE__', p['title'])
               .replace('__STATEMENT__', p['statement']).replace('__QUANT__', p['quantifier']['text']))
        print(out)
