#!/bin/bash
# rebase_patch.sh <patch> <out>: re-express a seeded change against /repo HEAD (git apply, else patch with fuzz)
set -e
wt=/tmp/wt_rebase_$$
git -C /repo worktree add -q --detach $wt HEAD
cd $wt
if git apply $1 2>/dev/null; then echo "clean"; else patch -p1 -s -i $1 && echo "fuzz"; fi
git diff -- AutoCarver > $2
cd /; git -C /repo worktree remove --force $wt
