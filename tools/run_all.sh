#!/bin/bash
# run_all.sh <seed> [tier]: runs every registered check, prints one line per property
seed=${1:-1}; tier=${2:-quick}
cd /verif
for p in C01 C02 C03 C04 C05 C06 C07 C08 C09 C10 C11 C12 C13 C14 C15 C16 C17 C18 C19; do
  start=$(date +%s)
  VERIF_SEED=$seed /venv/bin/python pbt/run.py $p --tier $tier > /tmp/runall_${p}_$seed.log 2>&1
  code=$?
  echo "$p seed=$seed exit=$code $(( $(date +%s) - start ))s $(grep -c '^VIOLATION' /tmp/runall_${p}_$seed.log) violations $(grep -c '^KNOWN' /tmp/runall_${p}_$seed.log) known | $(tail -1 /tmp/runall_${p}_$seed.log | cut -c1-120)"
done
