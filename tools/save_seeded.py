#!/venv/bin/python
"""save_seeded.py <seed-id> <worktree> <property> '<needs>' '<caught_by>' '<notes>' : stores a confirmed seeded change."""
import json, os, shutil, sys
sid, wt, prop, needs, caught, notes = sys.argv[1:7]
dst = f"/verif/seeded/{sid}"
os.makedirs(dst, exist_ok=True)
for name in ("patch.diff", "demo.py", "README.md"):
    shutil.copy(f"{wt}/MUTANT/{name}", f"{dst}/{name}")
log = open(f"/tmp/mut_verify_{sid.split('_')[0]}.log").read() if os.path.exists(f"/tmp/mut_verify_{sid.split('_')[0]}.log") else ""
meta = {
    "id": sid,
    "breaks_property": prop,
    "origin": "independent sub-agent given only the property text and a scratch worktree",
    "needs_to_manifest": needs,
    "confirmed_by_me": {
        "commands": [
            f"PYTHONPATH=<worktree with patch> /venv/bin/python demo.py   -> exit 1",
            "PYTHONPATH=/repo /venv/bin/python demo.py                  -> exit 0 (repo HEAD incl. fix: commits)",
            "PYTHONPATH=<worktree> /venv/bin/python -m pytest -q -p no:cacheprovider -n 5 tests -> 102 passed",
            "git -C /repo apply --check patch.diff -> applies to current HEAD",
        ],
        "log": [l for l in log.splitlines() if l and not l.startswith("--")],
    },
    "caught_by": caught,
    "notes": notes,
}
json.dump(meta, open(f"{dst}/meta.json", "w"), indent=1)
print("saved", dst)
