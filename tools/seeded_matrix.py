#!/venv/bin/python
"""Runs every stored seeded change through the quick tier of the check of the property it breaks (on a scratch
copy of /repo HEAD, nothing in /repo is touched) and writes seeded/RESULTS.md."""
import glob, json, os, subprocess, sys, time

ROOT = os.path.dirname(os.path.dirname(os.path.abspath(__file__)))
rows = []
only = sys.argv[1:]
for d in sorted(glob.glob(os.path.join(ROOT, "seeded", "*", ""))):
    sid = os.path.basename(d.rstrip("/"))
    if only and not any(sid.startswith(o) for o in only):
        continue
    meta = json.load(open(d + "meta.json"))
    for prop in meta.get("check_with", [meta["breaks_property"]]):
        t0 = time.time()
        proc = subprocess.run([sys.executable, os.path.join(ROOT, "tools/sensitivity.py"), "--patch", d + "patch.diff", prop], capture_output=True, text=True)
        sigs = [l.split("signature:")[1].strip()[:90] for l in proc.stdout.splitlines() if "signature:" in l]
        caught = any(l.startswith("VIOLATION") for l in proc.stdout.splitlines())
        rows.append((sid, prop, "caught" if caught else "MISSED", round(time.time() - t0), "; ".join(sigs[:3])))
        print(rows[-1], flush=True)
# results are kept in seeded/results.json (one entry per seeded change and check) so that partial re-runs merge
store_path = os.path.join(ROOT, "seeded", "results.json")
store = json.load(open(store_path)) if os.path.exists(store_path) else {}
for sid, prop, result, wall, sigs in rows:
    store[f"{sid}|{prop}"] = {"seeded": sid, "check": prop, "result": result, "wall_s": wall, "signatures": sigs}
json.dump(store, open(store_path, "w"), indent=1, sort_keys=True)
with open(os.path.join(ROOT, "seeded", "RESULTS.md"), "w") as fh:
    fh.write("# Seeded changes vs. the quick tier (VERIF_SEED=1) of the check(s) named in their meta.json\n\n")
    fh.write("Produced by tools/seeded_matrix.py (scratch copy of /repo HEAD + patch; /repo itself untouched).\n")
    fh.write("A change whose trigger is an edit history is listed against C17 as well as against the property it was written for.\n\n")
    fh.write("| seeded change | check | result | wall s | signatures |\n|---|---|---|---|---|\n")
    for key in sorted(store):
        r = store[key]
        fh.write(f"| {r['seeded']} | {r['check']} | {r['result']} | {r['wall_s']} | {r['signatures']} |\n")
print("MISSED:", [r[0] + "/" + r[1] for r in rows if r[2] != "caught"])
