#!/venv/bin/python
"""Runs every stored seeded change through the quick tier of the check of the property it breaks (on a scratch
copy of /repo HEAD, nothing in /repo is touched) and writes seeded/RESULTS.md."""
import glob, json, os, subprocess, sys, time

ROOT = os.path.dirname(os.path.dirname(os.path.abspath(__file__)))
rows = []
only = sys.argv[1:]
for d in sorted(glob.glob(os.path.join(ROOT, "seeded", "*", ""))):
    sid = os.path.basename(d.rstrip("/"))
    if only and not any(sid.startswith(o) for o in only):
        continue
    meta = json.load(open(d + "meta.json"))
    for prop in meta.get("check_with", [meta["breaks_property"]]):
        t0 = time.time()
        proc = subprocess.run([sys.executable, os.path.join(ROOT, "tools/sensitivity.py"), "--patch", d + "patch.diff", prop], capture_output=True, text=True)
        sigs = [l.split("signature:")[1].strip()[:90] for l in proc.stdout.splitlines() if "signature:" in l]
        caught = any(l.startswith("VIOLATION") for l in proc.stdout.splitlines())
        rows.append((sid, prop, "caught" if caught else "MISSED", round(time.time() - t0), "; ".join(sigs[:3])))
        print(rows[-1], flush=True)
with open(os.path.join(ROOT, "seeded", "RESULTS.md"), "w") as fh:
    fh.write("# Seeded changes vs. the quick tier (VERIF_SEED=1) of the check of the property they break\n\n")
    fh.write("Produced by tools/seeded_matrix.py (scratch copy of /repo HEAD + patch; /repo itself untouched).\n\n")
    fh.write("| seeded change | property | result | wall s | signatures |\n|---|---|---|---|---|\n")
    for r in rows:
        fh.write("| " + " | ".join(map(str, r)) + " |\n")
print("MISSED:", [r[0] for r in rows if r[2] != "caught"])
