#!/venv/bin/python
"""Development tool: run checks against a mutated scratch copy of the repository.

    sensitivity.py --patch <file.diff> C03 C04 [--tier quick] [--examples N]
    sensitivity.py --sub 'path::old::new' C03          (literal one-line substitution)

The copy lives under /tmp/ac_mut_<pid>/ and is removed afterwards. Nothing under /repo is touched.
"""
import argparse
import os
import shutil
import subprocess
import sys

ROOT = os.path.dirname(os.path.dirname(os.path.abspath(__file__)))


def main() -> int:
    ap = argparse.ArgumentParser()
    ap.add_argument("--patch")
    ap.add_argument("--sub", action="append", default=[])
    ap.add_argument("--tier", default="quick")
    ap.add_argument("--examples")
    ap.add_argument("--seed", default="1")
    ap.add_argument("--keep-replays", help="directory that receives the replay files of the violations found")
    ap.add_argument("props", nargs="+")
    args = ap.parse_args()
    scratch = f"/tmp/ac_mut_{os.getpid()}"
    shutil.rmtree(scratch, ignore_errors=True)
    os.makedirs(scratch)
    try:
        subprocess.run(["git", "-C", "/repo", "archive", "--format=tar", "HEAD", "-o", f"{scratch}/src.tar"], check=True)
        subprocess.run(["tar", "-xf", f"{scratch}/src.tar", "-C", scratch], check=True)
        os.remove(f"{scratch}/src.tar")
        # uncommitted working-tree state of /repo is intentionally not copied: mutants apply to HEAD
        if args.patch:
            proc = subprocess.run(["git", "apply", "--directory", scratch, "--unsafe-paths", os.path.abspath(args.patch)], cwd=scratch)
            if proc.returncode != 0:
                proc = subprocess.run(["patch", "-p1", "-d", scratch, "-i", os.path.abspath(args.patch)])
                if proc.returncode != 0:
                    print("PATCH DOES NOT APPLY")
                    return 3
        for sub in args.sub:
            path, old, new = sub.split("::")
            full = os.path.join(scratch, path)
            text = open(full, encoding="utf-8").read()
            if text.count(old) < 1:
                print(f"SUBSTITUTION TARGET NOT FOUND in {path}: {old!r}")
                return 3
            open(full, "w", encoding="utf-8").write(text.replace(old, new, 1))
        status = 0
        for pid in args.props:
            env = dict(os.environ, VERIF_REPO=scratch, VERIF_SEED=args.seed, PYTHONHASHSEED="0", VERIF_OUT=os.path.join(scratch, "out"))
            cmd = ["/venv/bin/python", os.path.join(ROOT, "pbt/run.py"), pid, "--tier", args.tier]
            if args.examples:
                cmd += ["--examples", args.examples]
            proc = subprocess.run(cmd, env=env, capture_output=True, text=True, cwd=ROOT)
            lines = [l for l in proc.stdout.splitlines() if l.startswith(("VIOLATION", "  signature", "[", "KNOWN"))]
            print(f"== {pid}: exit {proc.returncode}")
            print("\n".join(lines[:12]))
            if proc.returncode == 2:
                print(proc.stderr[-1500:])
            status = max(status, proc.returncode)
        if args.keep_replays and os.path.isdir(os.path.join(scratch, "out", "replays")):
            shutil.copytree(os.path.join(scratch, "out", "replays"), args.keep_replays, dirs_exist_ok=True)
        return status
    finally:
        shutil.rmtree(scratch, ignore_errors=True)


if __name__ == "__main__":
    sys.exit(main())
