#!/bin/bash
# verify_mutant.sh <pid> <worktree>: confirms a seeded change (demo fails with it / passes on /repo HEAD, tests pass)
pid=$1; wt=$2; log=/tmp/mut_verify_$pid.log
{
echo "== $pid $wt"
cd $wt
echo "-- patch applies to /repo HEAD?"; git -C /repo apply --check $wt/MUTANT/patch.diff && echo "applies: yes" || echo "applies: NO"
echo "-- demo with change"; PYTHONPATH=$wt /venv/bin/python MUTANT/demo.py > /tmp/mut_demo_$pid.with 2>&1; echo "exit_with=$?"
echo "-- demo on /repo HEAD"; (cd /tmp && PYTHONPATH=/repo /venv/bin/python $wt/MUTANT/demo.py > /tmp/mut_demo_$pid.without 2>&1; echo "exit_without=$?")
echo "-- tests with change"; PYTHONPATH=$wt /venv/bin/python -m pytest -q -p no:cacheprovider -n 5 tests 2>&1 | tail -1
echo "== done"
} > $log 2>&1
